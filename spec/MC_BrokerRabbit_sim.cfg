SPECIFICATION Spec
CONSTANTS
  Ids = {1, 2, 3, 4, 5}
  Consumers = {1, 2, 3}
  Topics = {1}
  MaxTime = 6
  Dues = {0, 2, 3, 5}
  Ttls = {0, 1, 3}
  MaxTag = 40
  ConsCfg <- CfgSimR
INVARIANT Conservation
INVARIANT TagmapSound
INVARIANT OneStage
ACTION_CONSTRAINT SimOrder
