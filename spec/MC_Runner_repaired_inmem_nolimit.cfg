SPECIFICATION Spec
CONSTANTS
  Msgs = {1, 2, 3}
  NQ = 1
  TL = 1
  ML = 0
  MaxRetries = 1
  Late = FALSE
  Repaired = TRUE
  BudgetCheck = "after_slot"
  Prefetch = 0
  FinishMode = "taken"
INVARIANT Conservation
INVARIANT SlotsSound
INVARIANT RunningBound
INVARIANT StartedBound
INVARIANT AtReturn
INVARIANT TriedBound
CONSTRAINT Bounded
