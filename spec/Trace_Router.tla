---- MODULE Trace_Router ----
EXTENDS Router, Json, IOUtils, TLCExt, Sequences, SequencesExt
Traces == JsonDeserialize(IOEnv.TRACE_FILE)
VARIABLES tid, l
Ev == Traces[tid][l]
Is(k) == l <= Len(Traces[tid]) /\ Ev.e = k
Step == l' = l + 1 /\ UNCHANGED tid
TInit == Init /\ tid \in 1..Len(Traces) /\ l = 1 /\ TLCSet(tid, 1)
(* observed state of all routers after the operation: obs.actors[r] = sequence of <<name, queue, fn>>, *)
(* obs.tbq[r] = sequence of <<queue, <<names>>>>                                                      *)
ObsActors(r) == LET s == Ev.obs[r].actors IN [n \in {s[k][1] : k \in 1..Len(s)} |->
                    LET k == CHOOSE k \in 1..Len(s) : s[k][1] = n IN <<s[k][2], s[k][3]>>]
ObsTbq(r) == LET s == Ev.obs[r].tbq IN [q \in {s[k][1] : k \in 1..Len(s)} |->
                    LET k == CHOOSE k \in 1..Len(s) : s[k][1] = q IN ToSet(s[k][2])]
Matches == \A r \in Routers : actors'[r] = ObsActors(r) /\ tbq'[r] = ObsTbq(r)
TReg == /\ Is("register") /\ Step
        /\ \E k \in BOOLEAN : Register(Ev.r, Ev.n, Ev.q, Ev.fn, k)
        /\ Matches
TInc == /\ Is("include") /\ Step /\ Include(Ev.dst, Ev.src) /\ Matches
TNext == TReg \/ TInc
TSpec == TInit /\ [][TNext]_<<vars, tid, l>>
Progress == TLCSet(tid, IF TLCGet(tid) < l THEN l ELSE TLCGet(tid))
Accepted == {t \in 1..Len(Traces) : TLCGet(t) # Len(Traces[t]) + 1 /\ PrintT(<<"REJECT", t, TLCGet(t)>>)} = {} \/ TRUE
====
