SPECIFICATION Spec
CONSTANT N = 2
INVARIANT RoundTrip
INVARIANT Filter
INVARIANT NoColon
