SPECIFICATION Spec
CONSTANTS
  Ids = {1, 2}
  Consumers = {1, 2}
  MaxTime = 3
  Dues = {0, 2}
  Ttls = {0, 2}
  Kinds = {"none", "net", "defer"}
  Period = 3
  Tmo = 1
  W = 2
  ConsCfg <- CfgND

VIEW NoHist
INVARIANT Conservation
INVARIANT MarkedIffInFlight
INVARIANT HeldIsInFlight
INVARIANT DueRemembered
INVARIANT AbsConservation
INVARIANT AbsOneHolder
INVARIANT AbsNorderSound
PROPERTY Refines
PROPERTY AbsNeverEarly
PROPERTY AbsAckRemoves
PROPERTY ReturnKeepsDue
PROPERTY NotBeforeTimeout
PROPERTY NeverEarly
