------------------------------ MODULE WorkerAbs ------------------------------
(***************************************************************************)
(* Abstract model of one repid worker over one queue: what C02 C03 C04 C06 *)
(* C09 C10 promise, independent of how _Runner implements it.  Messages    *)
(* carry (tried, max, recurring); the worker takes a waiting message,      *)
(* runs the actor (at most TL bodies at once, at most ML in total), and    *)
(* applies exactly the terminal action of the decision table; a stop       *)
(* request may arrive at any time, after which nothing new is started and  *)
(* a forced cancellation returns what is still held.                       *)
(***************************************************************************)
EXTENDS Integers, FiniteSets, Disposition
CONSTANTS Msgs, MaxRetries, TL, ML, Recurring, MaxSched

VARIABLES place,   \* msg -> "wait" | "held" | "dead" | "acked"
          ph,      \* msg -> "idle" | "got" | "run" | "ended" | "killed"
          tried, mx, out, nact, nexec, sched,
          running, started, finished, stop, forced, returned
vars == <<place, ph, tried, mx, out, nact, nexec, sched, running, started, finished, stop, forced, returned>>

Init == /\ place = [m \in Msgs |-> "wait"] /\ ph = [m \in Msgs |-> "idle"]
        /\ tried = [m \in Msgs |-> 0] /\ mx \in [Msgs -> 0..MaxRetries]
        /\ out = [m \in Msgs |-> "none"] /\ nact = [m \in Msgs |-> 0] /\ nexec = [m \in Msgs |-> 0]
        /\ sched = [m \in Msgs |-> 0]
        /\ running = 0 /\ started = 0 /\ finished = 0 /\ stop = FALSE /\ forced = FALSE /\ returned = FALSE

LimitHit == ML > 0 /\ started >= ML
Deliver(m) == /\ ~stop /\ ~returned /\ place[m] = "wait" /\ ph[m] = "idle" /\ ~LimitHit
              /\ running + Cardinality({x \in Msgs : ph[x] = "got"}) < TL
              /\ (ML > 0 => started + Cardinality({x \in Msgs : ph[x] = "got"}) < ML)
              /\ place' = [place EXCEPT ![m] = "held"] /\ ph' = [ph EXCEPT ![m] = "got"]
              /\ nact' = [nact EXCEPT ![m] = 0]
              /\ UNCHANGED <<tried, mx, out, nexec, sched, running, started, finished, stop, forced, returned>>
Start(m) == /\ ph[m] = "got" /\ ~forced
            /\ ph' = [ph EXCEPT ![m] = "run"] /\ running' = running + 1 /\ started' = started + 1
            /\ nexec' = [nexec EXCEPT ![m] = @ + 1]
            /\ UNCHANGED <<place, tried, mx, out, nact, sched, finished, stop, forced, returned>>
End(m, o) == /\ ph[m] = "run"
             /\ ph' = [ph EXCEPT ![m] = "ended"] /\ out' = [out EXCEPT ![m] = o] /\ running' = running - 1
             /\ UNCHANGED <<place, tried, mx, nact, nexec, sched, started, finished, stop, forced, returned>>
Apply(m, d) ==
    /\ nact' = [nact EXCEPT ![m] = @ + 1]
    /\ CASE d = "ack" -> place' = [place EXCEPT ![m] = "acked"] /\ UNCHANGED <<tried, nexec, sched>>
         [] d = "nack" -> place' = [place EXCEPT ![m] = "dead"] /\ UNCHANGED <<tried, nexec, sched>>
         [] d = "retry" -> place' = [place EXCEPT ![m] = "wait"] /\ tried' = [tried EXCEPT ![m] = @ + 1] /\ UNCHANGED <<nexec, sched>>
         [] d = "resched" -> /\ place' = [place EXCEPT ![m] = IF sched[m] < MaxSched THEN "wait" ELSE "acked"]
                             /\ tried' = [tried EXCEPT ![m] = 0] /\ nexec' = [nexec EXCEPT ![m] = 0]
                             /\ sched' = [sched EXCEPT ![m] = @ + 1]
Dispose(m) == /\ ph[m] = "ended"
              /\ Apply(m, Disposition(out[m], tried[m], mx[m], m \in Recurring))
              /\ ph' = [ph EXCEPT ![m] = "idle"] /\ finished' = finished + 1
              /\ UNCHANGED <<mx, out, running, started, stop, forced, returned>>
StopReq == ~stop /\ stop' = TRUE
           /\ UNCHANGED <<place, ph, tried, mx, out, nact, nexec, sched, running, started, finished, forced, returned>>
Force == stop /\ ~forced /\ forced' = TRUE
         /\ UNCHANGED <<place, ph, tried, mx, out, nact, nexec, sched, running, started, finished, stop, returned>>
Kill(m) == /\ forced /\ ph[m] \in {"got", "run"}
           /\ running' = IF ph[m] = "run" THEN running - 1 ELSE running
           /\ ph' = [ph EXCEPT ![m] = "idle"] /\ place' = [place EXCEPT ![m] = "wait"]     \* returned, counter untouched
           /\ UNCHANGED <<tried, mx, out, nact, nexec, sched, started, finished, stop, forced, returned>>
Return == /\ (stop \/ LimitHit) /\ ~returned /\ \A m \in Msgs : ph[m] = "idle"
          /\ returned' = TRUE
          /\ UNCHANGED <<place, ph, tried, mx, out, nact, nexec, sched, running, started, finished, stop, forced>>
Next == \/ \E m \in Msgs : Deliver(m) \/ Start(m) \/ Dispose(m) \/ Kill(m) \/ \E o \in {"ok", "fail"} : End(m, o)
        \/ StopReq \/ Force \/ Return
Spec == Init /\ [][Next]_vars
FairSpec == Spec /\ WF_vars(\E m \in Msgs : Deliver(m) \/ Start(m) \/ Dispose(m) \/ Kill(m) \/ End(m, "ok") \/ End(m, "fail")) /\ WF_vars(Return)

ExactlyOne == \A m \in Msgs : nact[m] <= 1
TriedBound == \A m \in Msgs : tried[m] <= mx[m]
ChainLength == \A m \in Msgs : nexec[m] <= mx[m] + 1
RunningBound == running <= TL
StartedBound == ML > 0 => started <= ML
HeldIffBusy == \A m \in Msgs : place[m] = "held" <=> ph[m] # "idle"
AtReturn == returned => \A m \in Msgs : place[m] # "held"
TriedStep == [][\A m \in Msgs : tried'[m] \in {tried[m], tried[m] + 1, 0}]_vars
(* liveness: with no stop request every message is finally acked or dead-lettered (bounded reschedules) *)
Progress == (ML = 0) => <>[](stop \/ \A m \in Msgs : place[m] \in {"acked", "dead"})
=============================================================================
