----------------------------- MODULE Middleware -----------------------------
(***************************************************************************)
(* C17: the signal protocol around every wrapped operation (broker, bucket *)
(* broker, consumer and actor-run operations).  An outermost operation     *)
(* goes  called -> before -> eff -> done -> (after) -> ret ; a nested one   *)
(* (invoked inside the effect of another wrapped operation) goes           *)
(* called -> eff -> done -> ret  and emits nothing.                        *)
(***************************************************************************)
EXTENDS Integers, Sequences, FiniteSets, TLC
CONSTANTS Ops, Conns

VARIABLES st,      \* op -> "idle" | "called" | "before" | "eff" | "done" | "after" | "ret"
          nested,  \* op -> BOOLEAN
          ok,      \* op -> the effect succeeded
          conn,    \* op -> connection it belongs to
          nb, na,  \* op -> number of before / after signals emitted
          sigconn  \* op -> set of connections that received its signals
vars == <<st, nested, ok, conn, nb, na, sigconn>>

Init == /\ st = [o \in Ops |-> "idle"] /\ nested = [o \in Ops |-> FALSE] /\ ok = [o \in Ops |-> FALSE]
        /\ conn \in [Ops -> Conns] /\ nb = [o \in Ops |-> 0] /\ na = [o \in Ops |-> 0]
        /\ sigconn = [o \in Ops |-> {}]

Call(o, n) == /\ st[o] = "idle" /\ st' = [st EXCEPT ![o] = "called"] /\ nested' = [nested EXCEPT ![o] = n]
              /\ UNCHANGED <<ok, conn, nb, na, sigconn>>
Before(o, c) == /\ st[o] = "called" /\ ~nested[o] /\ c = conn[o]
                /\ st' = [st EXCEPT ![o] = "before"] /\ nb' = [nb EXCEPT ![o] = @ + 1]
                /\ sigconn' = [sigconn EXCEPT ![o] = @ \cup {c}]
                /\ UNCHANGED <<nested, ok, conn, na>>
Eff(o) == /\ st[o] = (IF nested[o] THEN "called" ELSE "before")
          /\ st' = [st EXCEPT ![o] = "eff"] /\ UNCHANGED <<nested, ok, conn, nb, na, sigconn>>
Done(o, r) == /\ st[o] = "eff" /\ st' = [st EXCEPT ![o] = "done"] /\ ok' = [ok EXCEPT ![o] = r]
              /\ UNCHANGED <<nested, conn, nb, na, sigconn>>
After(o, c) == /\ st[o] = "done" /\ ok[o] /\ ~nested[o] /\ c = conn[o]
               /\ st' = [st EXCEPT ![o] = "after"] /\ na' = [na EXCEPT ![o] = @ + 1]
               /\ sigconn' = [sigconn EXCEPT ![o] = @ \cup {c}]
               /\ UNCHANGED <<nested, ok, conn, nb>>
\* (a call that is cancelled while its `before' subscribers are still running returns -- unsuccessfully -- without effect)
Ret(o, r) == /\ r = ok[o]
             /\ \/ /\ st[o] = (IF ~nested[o] /\ ok[o] THEN "after" ELSE "done")
                   /\ st' = [st EXCEPT ![o] = "ret"]
                \/ /\ ~r /\ st[o] \in {"called", "before"}
                   /\ st' = [st EXCEPT ![o] = "aborted"]
             /\ UNCHANGED <<nested, ok, conn, nb, na, sigconn>>

Next == \E o \in Ops : \/ \E n \in BOOLEAN : Call(o, n)
                       \/ \E c \in Conns : Before(o, c) \/ After(o, c)
                       \/ Eff(o) \/ \E r \in BOOLEAN : Done(o, r) \/ Ret(o, r)
Spec == Init /\ [][Next]_vars

OncePerOp == \A o \in Ops : nb[o] <= 1 /\ na[o] <= 1
BeforePrecedesEffect == \A o \in Ops : (st[o] \in {"eff", "done", "after", "ret"} /\ ~nested[o]) => nb[o] = 1
AfterIffSuccess == \A o \in Ops : /\ (st[o] = "ret" => (na[o] = (IF ok[o] /\ ~nested[o] THEN 1 ELSE 0)))
                                   /\ (st[o] = "aborted" => na[o] = 0)
NestedSilent == \A o \in Ops : nested[o] => (nb[o] = 0 /\ na[o] = 0)
RightConnection == \A o \in Ops : sigconn[o] \subseteq {conn[o]}
=============================================================================
