SPECIFICATION Spec
CONSTANTS
  Routers = {1, 2, 3}
  Names = {1, 2}
  Queues = {1, 2}
  Fns = {1, 2}
INVARIANT NoEmptyFilter
INVARIANT ActorReachable
INVARIANT TopicsAreActors
