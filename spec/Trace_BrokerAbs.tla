--------------------------- MODULE Trace_BrokerAbs ---------------------------
(***************************************************************************)
(* Trace validation against the broker contract.  A recorded execution is  *)
(* a sequence of events:                                                   *)
(*   hdr   : options of the trace (fifo clause on/off, enabled deviations)  *)
(*   cons  : a consumer object was created (queue, category, topics)       *)
(*   time  : the virtual clock advanced                                    *)
(*   begin : an API call started (op, calling consumer, message, new meta) *)
(*   move  : the *observed* occurrence vector of one message id changed    *)
(*           (projection of the real broker state after an event-loop      *)
(*           step), attributed to the call / consumer in whose context the *)
(*           step ran                                                      *)
(*   end   : an API call returned / raised / was cancelled (+ result)       *)
(* Every move must be explained by exactly one contract action of          *)
(* BrokerAbs with the logged parameters; every end must find the call's    *)
(* effect applied (or, for an interrupted call, wholly applied or wholly   *)
(* absent).  All traces of a run are validated in one TLC invocation.      *)
(***************************************************************************)
EXTENDS BrokerAbs, Json, IOUtils, TLCExt

Traces == JsonDeserialize(IOEnv.TRACE_FILE)

VARIABLES tid, l, calls, chk, devs
tvars == <<tid, l, calls, chk, devs>>
allvars == <<vars, tvars>>

Ev == Traces[tid][l]
Is(k) == l <= Len(Traces[tid]) /\ Ev.e = k
Step == l' = l + 1 /\ UNCHANGED tid
Vec(v) == [n |-> v[1], d |-> v[2], x |-> v[3], p |-> v[4]]
MetaOf(m) == [q |-> m.q, topic |-> m.topic, prio |-> m.prio, due |-> m.due, exp |-> m.exp, dl |-> m.dl, ver |-> m.ver]
NoCall == [op |-> "none", c |-> 0, i |-> 0, m |-> Meta0, done |-> FALSE, t0 |-> 0, h0 |-> FALSE]
Call(k) == IF k \in DOMAIN calls THEN calls[k] ELSE NoCall
Done(k) == calls' = [calls EXCEPT ![k].done = TRUE]

TInit == /\ Init
         /\ tid \in 1..Len(Traces) /\ l = 1 /\ calls = <<>> /\ chk = {} /\ devs = {}
         /\ TLCSet(tid, 1)

THdr == /\ Is("hdr") /\ Step
        /\ chk' = ToSet(Ev.chk) /\ devs' = ToSet(Ev.devs)
        /\ UNCHANGED <<vars, calls>>

TCons == /\ Is("cons") /\ Step
         /\ cons' = [cons EXCEPT ![Ev.c] = [on |-> FALSE, q |-> Ev.q, cat |-> Ev.cat, topics |-> ToSet(Ev.topics)]]
         /\ UNCHANGED <<now, st, loc, meta, holder, origin, deliv, ret, norder, transit, pend, calls, chk, devs>>

(* C05 bounded latency: a consume() call of a normal consumer that has been waiting since before *)
(* message i fell due is not still empty-handed after i's deadline (dl = due + latency bound),    *)
(* while i is waiting, matching and alive.                                                       *)
Starved(t) ==
    \E k \in DOMAIN calls : \E i \in Ids :
        /\ calls[k].op = "consume" /\ ~calls[k].done
        /\ cons[calls[k].c].cat = "n" /\ cons[calls[k].c].on
        /\ calls[k].m.dl # NoTime /\ t > calls[k].m.dl          \* the call has been waiting longer than the bound
        /\ Live(i) /\ holder[i] = NoC /\ Matches(calls[k].c, i) /\ (loc[i] = U("n") \/ loc[i] = U("d"))
        /\ meta[i].dl # NoTime /\ t > meta[i].dl                \* ... and i has been deliverable longer than the bound
        /\ (meta[i].exp = NoTime \/ meta[i].exp >= t)

TTime == /\ Is("time") /\ Step
         /\ Ev.now >= now /\ now' = Ev.now
         /\ ("latency" \in chk => ~Starved(Ev.now))
         /\ UNCHANGED <<st, loc, meta, holder, origin, deliv, ret, cons, norder, transit, pend, calls, chk, devs>>

TBegin == /\ Is("begin") /\ Step
          /\ calls' = (Ev.k :> [op |-> Ev.op, c |-> Ev.c, i |-> Ev.i, m |-> MetaOf(Ev.m), done |-> FALSE, t0 |-> now,
                                h0 |-> (Ev.i # 0 /\ Ev.c # 0 /\ Held(Ev.c, Ev.i))]) @@ calls
          /\ IF Ev.op = "start" THEN Start(Ev.c)
             ELSE UNCHANGED vars
          /\ UNCHANGED <<chk, devs>>

-----------------------------------------------------------------------------
(* Deviation actions: behaviours of the pinned code that the contract forbids.  They are        *)
(* disabled unless the trace header lists them (a rejected trace is re-validated with the        *)
(* deviations of the known findings enabled, see known_findings.json).                           *)
Dev(name) == name \in devs

\* in-memory reject(): a message taken through the delayed/dead category goes back to `normal'
DevRejectToNormal(c, i) ==
    /\ Dev("inmem_reject_to_normal")
    /\ Held(c, i) /\ origin[i] # "n"
    /\ loc' = [loc EXCEPT ![i] = U("n")]
    /\ holder' = [holder EXCEPT ![i] = NoC]
    /\ ret' = [ret EXCEPT ![i] = TRUE]
    /\ UNCHANGED <<now, st, meta, origin, deliv, cons, norder, transit, pend>>

\* in-memory finish(): returns messages held by *other* consumers of the queue
DevFinishForeign(c, i) ==
    /\ Dev("inmem_finish_returns_foreign")
    /\ holder[i] # NoC /\ holder[i] # c /\ loc[i] = U("p")
    /\ loc' = [loc EXCEPT ![i] = U("n")]
    /\ holder' = [holder EXCEPT ![i] = NoC]
    /\ ret' = [ret EXCEPT ![i] = TRUE]
    /\ UNCHANGED <<now, st, meta, origin, deliv, cons, norder, transit, pend>>

\* in-memory finish(): own held messages go to `normal' whatever category they came through
DevFinishToNormal(c, i) ==
    /\ Dev("inmem_reject_to_normal")
    /\ Held(c, i) /\ origin[i] # "n"
    /\ loc' = [loc EXCEPT ![i] = U("n")]
    /\ holder' = [holder EXCEPT ![i] = NoC]
    /\ ret' = [ret EXCEPT ![i] = TRUE]
    /\ UNCHANGED <<now, st, meta, origin, deliv, cons, norder, transit, pend>>

-----------------------------------------------------------------------------
TMove ==
    /\ Is("move") /\ Step
    /\ LET i == Ev.i  new == Vec(Ev.v)  k == Ev.k  cl == Call(Ev.k) IN
       /\ \/ /\ cl.op = "enqueue" /\ cl.i = i /\ ~cl.done
             /\ \E pl \in {"n", "d"} : Enqueue(i, cl.m, pl)
             /\ Done(k)
          \/ /\ Promote({i}, chk) /\ UNCHANGED calls
          \/ /\ Expire(i, chk) /\ UNCHANGED calls
          \/ /\ Ev.c # 0 /\ Take(Ev.c, i, chk) /\ UNCHANGED calls
          \/ /\ cl.op = "ack" /\ cl.i = i /\ ~cl.done /\ Ack(cl.c, i) /\ Done(k)
          \/ /\ cl.op = "nack" /\ cl.i = i /\ ~cl.done /\ Nack(cl.c, i) /\ Done(k)
          \/ /\ cl.op = "reject" /\ cl.i = i /\ ~cl.done
             /\ \/ \E pl \in Cats : Reject(cl.c, i, pl)
                \/ DevRejectToNormal(cl.c, i)
             /\ Done(k)
          \/ /\ cl.op = "requeue" /\ cl.i = i /\ ~cl.done
             /\ \/ /\ \E pl \in {"n", "d"} : Requeue(cl.c, i, cl.m, pl)
                   /\ Done(k)
                \/ /\ RequeueRemove(cl.c, i, cl.m) /\ UNCHANGED calls
                \/ /\ \E pl \in {"n", "d"} : RequeueInsert(i, pl)
                   /\ Done(k)
          \/ /\ cl.op = "finish"
             /\ \/ \E pl \in Cats : ReturnHeld(cl.c, i, pl)
                \/ DevFinishForeign(cl.c, i)
                \/ DevFinishToNormal(cl.c, i)
             /\ UNCHANGED calls
       /\ loc'[i] = new
    /\ UNCHANGED <<chk, devs>>

(* End of a call.  ok: the effect must have been applied.  exc/cancel: all or nothing.           *)
TEnd ==
    /\ Is("end") /\ Step
    /\ LET k == Ev.k  cl == Call(Ev.k) IN
       /\ k \in DOMAIN calls
       /\ CASE cl.op = "consume" ->
                 IF Ev.st = "ok"
                 THEN /\ Deliver(cl.c, Ev.i, chk)
                      /\ ("content" \in chk => meta[Ev.i].ver = Ev.ver)  \* C07: what was enqueued is what arrives
                      /\ Done(k)
                 ELSE UNCHANGED vars /\ Done(k)
            [] cl.op = "enqueue" ->
                 /\ (Ev.st = "ok" => cl.done)
                 /\ UNCHANGED vars /\ UNCHANGED calls
            [] cl.op \in {"ack", "nack", "reject"} ->
                 /\ ((Ev.st = "ok" /\ cl.h0) => cl.done)    \* (a call on a message the caller does not hold is the caller's fault)
                 /\ UNCHANGED vars /\ UNCHANGED calls
            [] cl.op = "requeue" ->
                 /\ ((Ev.st = "ok" /\ cl.h0) => cl.done)
                 /\ ~transit[cl.i]                          \* never left in the remove/add gap
                 /\ UNCHANGED vars /\ UNCHANGED calls
            [] cl.op = "finish" ->
                 /\ IF Ev.st = "ok" THEN Stop(cl.c) ELSE UNCHANGED vars
                 /\ Done(k)
            [] OTHER -> UNCHANGED vars /\ UNCHANGED calls
    /\ UNCHANGED <<chk, devs>>

(* full observation of the broker: the contract state must agree with it for every id *)
TObs == /\ Is("obs") /\ Step
        /\ \A j \in Ids : loc[j] = (IF j <= Len(Ev.v) THEN Vec(Ev.v[j]) ELSE Zero)
        /\ UNCHANGED <<vars, calls, chk, devs>>

TraceConsCfgs == {[c \in Consumers |-> [on |-> FALSE, q |-> 0, cat |-> "n", topics |-> {}]]}
TNext == THdr \/ TObs \/ TCons \/ TTime \/ TBegin \/ TMove \/ TEnd
TSpec == TInit /\ [][TNext]_allvars

Progress == TLCSet(tid, IF TLCGet(tid) < l THEN l ELSE TLCGet(tid))
Accepted == {t \in 1..Len(Traces) : TLCGet(t) # Len(Traces[t]) + 1 /\ PrintT(<<"REJECT", t, TLCGet(t)>>)} = {} \/ TRUE
=============================================================================
