--------------------------- MODULE Trace_BrokerAbs ---------------------------
(***************************************************************************)
(* Trace validation against the broker contract.  A recorded execution is  *)
(* a sequence of events:                                                   *)
(*   hdr   : options of the trace (fifo clause on/off, enabled deviations)  *)
(*   cons  : a consumer object was created (queue, category, topics)       *)
(*   time  : the virtual clock advanced                                    *)
(*   begin : an API call started (op, calling consumer, message, new meta) *)
(*   move  : the *observed* occurrence vector of one message id changed    *)
(*           (projection of the real broker state after an event-loop      *)
(*           step), attributed to the call / consumer in whose context the *)
(*           step ran                                                      *)
(*   end   : an API call returned / raised / was cancelled (+ result)       *)
(* Every move must be explained by exactly one contract action of          *)
(* BrokerAbs with the logged parameters; every end must find the call's    *)
(* effect applied (or, for an interrupted call, wholly applied or wholly   *)
(* absent).  All traces of a run are validated in one TLC invocation.      *)
(***************************************************************************)
EXTENDS BrokerAbs, Json, IOUtils, TLCExt

Traces == JsonDeserialize(IOEnv.TRACE_FILE)

VARIABLES tid, l, calls, chk, devs, taint, rdl, rdls, dead, unsure, enqAt, ovt, mvAt, hot, retdl, arrAt
tvars == <<tid, l, calls, chk, devs, taint, rdl, rdls, dead, unsure, enqAt, ovt, mvAt, hot, retdl, arrAt>>
allvars == <<vars, tvars>>

Ev == Traces[tid][l]
Is(k) == l <= Len(Traces[tid]) /\ Ev.e = k
Step == l' = l + 1 /\ UNCHANGED tid
Vec(v) == [n |-> v[1], d |-> v[2], x |-> v[3], p |-> v[4]]
MetaOf(m) == [q |-> m.q, topic |-> m.topic, prio |-> m.prio, due |-> m.due, exp |-> m.exp, dl |-> m.dl, ver |-> m.ver, dues |-> m.dues]
NoCall == [op |-> "none", c |-> 0, i |-> 0, m |-> Meta0, done |-> FALSE, t0 |-> 0, h0 |-> FALSE, l0 |-> 0]
Call(k) == IF k \in DOMAIN calls THEN calls[k] ELSE NoCall
Done(k) == calls' = [calls EXCEPT ![k].done = TRUE]

TInit == /\ Init
         /\ tid \in 1..Len(Traces) /\ l = 1 /\ calls = <<>> /\ chk = {} /\ devs = {} /\ taint = {} /\ rdl = [i \in Ids |-> 0] /\ rdls = [i \in Ids |-> 0] /\ dead = {} /\ unsure = {} /\ enqAt = [i \in Ids |-> 0] /\ ovt = [i \in Ids |-> 0] /\ mvAt = [i \in Ids |-> 0] /\ hot = [c \in Consumers |-> [p \in 0..10 |-> 0]] /\ retdl = [i \in Ids |-> 0] /\ arrAt = [i \in Ids |-> 0]
         /\ TLCSet(tid, 1)

THdr == /\ Is("hdr") /\ Step
        /\ chk' = ToSet(Ev.chk) /\ devs' = ToSet(Ev.devs)
        /\ UNCHANGED <<vars, calls, taint, rdl, rdls, dead, unsure, enqAt, ovt, mvAt, hot, retdl, arrAt>>

TCons == /\ Is("cons") /\ Step
         /\ cons' = [cons EXCEPT ![Ev.c] = [on |-> FALSE, q |-> Ev.q, cat |-> Ev.cat, topics |-> ToSet(Ev.topics)]]
         /\ UNCHANGED <<now, st, loc, meta, holder, origin, deliv, ret, norder, transit, pend, calls, chk, devs, taint, rdl, rdls, dead, unsure, enqAt, ovt, mvAt, hot, retdl, arrAt>>

(* C05 bounded latency: a consume() call of a normal consumer that has been waiting since before *)
(* message i fell due is not still empty-handed after i's deadline (dl = due + latency bound),    *)
(* while i is waiting, matching and alive.                                                       *)
Dev(name) == name \in devs
(* the clock reading at position pos of the trace *)
TimeAt(pos) == LET ks == {k \in 1..pos : Traces[tid][k].e = "time"} IN
               IF ks = {} THEN 1 ELSE Traces[tid][CHOOSE k \in ks : \A j \in ks : j <= k].now

(* known finding (RabbitMQ): per-message TTL expires at the head of the delay queue only, so a delayed  *)
(* message waits behind any message of the same delay queue that falls due later                       *)
BlockedBehind(i) == /\ enqAt[i] < meta[i].due        \* (i itself went to the delay queue because its due time was ahead)
                    /\ \E j \in Ids : j # i /\ Live(j) /\ loc[j] = U("d") /\ meta[j].q = meta[i].q /\ meta[j].due > meta[i].due
Starved(t, headOfLine) ==
    \E k \in DOMAIN calls : \E i \in Ids :
        /\ ~(headOfLine /\ loc[i] = U("d") /\ BlockedBehind(i))
        /\ calls[k].op = "consume" /\ ~calls[k].done
        /\ cons[calls[k].c].cat = "n" /\ cons[calls[k].c].on /\ calls[k].c \notin unsure /\ calls[k].c \notin dead
        /\ calls[k].m.dl # NoTime /\ t > calls[k].m.dl          \* the call has been waiting longer than the bound
        /\ Live(i) /\ holder[i] = NoC /\ Matches(calls[k].c, i) /\ (loc[i] = U("n") \/ loc[i] = U("d"))
        /\ LET d == IF meta[i].dl # NoTime THEN meta[i].dl ELSE retdl[i] IN d # NoTime /\ t > d   \* ... and i has been deliverable longer than the bound
        /\ (meta[i].exp = NoTime \/ meta[i].exp >= t)

TTime == /\ Is("time") /\ Step
         /\ Ev.now >= now /\ now' = Ev.now
         /\ ("latency" \in chk => (~Starved(Ev.now, FALSE) \/ (Dev("rabbit_head_of_line") /\ ~Starved(Ev.now, TRUE))))
         /\ UNCHANGED <<st, loc, meta, holder, origin, deliv, ret, cons, norder, transit, pend, calls, chk, devs, taint, rdl, rdls, dead, unsure, enqAt, ovt, mvAt, hot, retdl, arrAt>>

TBegin == /\ Is("begin") /\ Step
          /\ calls' = (Ev.k :> [op |-> Ev.op, c |-> Ev.c, i |-> Ev.i, m |-> MetaOf(Ev.m), done |-> FALSE, t0 |-> now, l0 |-> l,
                                h0 |-> (Ev.i # 0 /\ Ev.c # 0 /\ Held(Ev.c, Ev.i))]) @@ calls
          /\ IF Ev.op = "start" THEN Start(Ev.c)
             ELSE UNCHANGED vars
          \* the fate of a message that is in flight while its queue is flushed / deleted is broker-specific (it goes with
          \* the queue now, or later when its holder settles it, or stays): it is followed, but not judged, from here on
          /\ taint' = IF Ev.op = "flush" THEN taint \cup InFlight(Ev.m.q) ELSE taint
          /\ UNCHANGED <<chk, devs, rdl, rdls, dead, unsure, enqAt, ovt, mvAt, hot, retdl, arrAt>>

-----------------------------------------------------------------------------
(* Deviation actions: behaviours of the pinned code that the contract forbids.  They are        *)
(* disabled unless the trace header lists them (a rejected trace is re-validated with the        *)
(* deviations of the known findings enabled, see known_findings.json).                           *)
\* in-memory reject(): a message taken through the delayed/dead category goes back to `normal'
DevRejectToNormal(c, i) ==
    /\ Dev("inmem_reject_to_normal")
    /\ Held(c, i) /\ origin[i] # "n"
    /\ loc' = [loc EXCEPT ![i] = U("n")]
    /\ holder' = [holder EXCEPT ![i] = NoC]
    /\ ret' = [ret EXCEPT ![i] = TRUE]
    /\ UNCHANGED <<now, st, meta, origin, deliv, cons, norder, transit, pend>>

\* in-memory finish(): returns messages held by *other* consumers of the queue
DevFinishForeign(c, i) ==
    /\ Dev("inmem_finish_returns_foreign")
    /\ holder[i] # NoC /\ holder[i] # c /\ loc[i] = U("p")
    /\ loc' = [loc EXCEPT ![i] = U("n")]
    /\ holder' = [holder EXCEPT ![i] = NoC]
    /\ ret' = [ret EXCEPT ![i] = TRUE]
    /\ UNCHANGED <<now, st, meta, origin, deliv, cons, norder, transit, pend>>

\* in-memory finish(): own held messages go to `normal' whatever category they came through
DevFinishToNormal(c, i) ==
    /\ Dev("inmem_reject_to_normal")
    /\ Held(c, i) /\ origin[i] # "n"
    /\ loc' = [loc EXCEPT ![i] = U("n")]
    /\ holder' = [holder EXCEPT ![i] = NoC]
    /\ ret' = [ret EXCEPT ![i] = TRUE]
    /\ UNCHANGED <<now, st, meta, origin, deliv, cons, norder, transit, pend>>

(* Redis keeps due times and the clock as whole seconds: a delayed message is handed to a normal *)
(* consumer as soon as the clock's second reaches the due time's second (up to < 1 s early)       *)
DevRedisWholeSecond(c, i) ==
    /\ Dev("redis_whole_second") /\ "early" \in chk
    /\ loc[i] = U("d") /\ meta[i].due > now /\ meta[i].dues # NoTime /\ meta[i].dues <= now
    /\ Take(c, i, chk \ {"early"})

(* Redis scans its fetch window of the W oldest names from the newest side: last-in-first-out      *)
(* inside the window                                                                              *)
RedisWindow == 10
DevRedisLifoWindow(c, i) ==
    /\ Dev("redis_lifo_window") /\ "fifo" \in chk /\ ~FifoOk(c, i)
    /\ loc[i] = U("n") /\ InSeq(norder, i)
    /\ Cardinality({k \in 1..(PosIn(norder, i) - 1) : Eligible(c, norder[k]) /\ meta[norder[k]].prio = meta[i].prio}) < RedisWindow
    /\ Take(c, i, chk \ {"fifo"})

(* Redis take = read a name, then MULTI{LREM, ZADD processing} without checking that LREM removed  *)
(* anything: a second consumer can "take" and deliver a message another consumer already holds    *)
DevRedisDoubleTake(c, i) ==
    /\ Dev("redis_double_take") /\ "holder" \in chk
    /\ holder[i] # NoC /\ holder[i] # c /\ loc[i] = U("p")
    /\ holder' = [holder EXCEPT ![i] = c]             \* (the latest receiver is the one that goes on acting on it)
    /\ origin' = [origin EXCEPT ![i] = cons[c].cat]
    /\ deliv' = [deliv EXCEPT ![i] = TRUE]
    /\ UNCHANGED <<now, st, loc, meta, ret, cons, norder, transit, pend>>

(* ... or that the other consumer has meanwhile given back or re-queued: the second taker hands its stale copy to its client   *)
(* while the message is waiting again                                                                                            *)
DevRedisDoubleTakeStale(c, i) ==
    /\ Dev("redis_double_take") /\ "holder" \in chk
    /\ Live(i) /\ holder[i] = NoC /\ loc[i] \in {U("n"), U("d"), U("x")}
    /\ deliv' = [deliv EXCEPT ![i] = TRUE]
    /\ UNCHANGED <<now, st, loc, meta, holder, origin, ret, cons, norder, transit, pend>>

(* ... and when the first taker has already dead-lettered (expired) or returned it, the second     *)
(* taker's MULTI re-adds the name to `processing` / pushes it again: a second copy appears          *)
DevRedisDoubleTakeGhost(c, i, new) ==
    /\ Dev("redis_double_take") /\ "holder" \in chk
    /\ c # 0 /\ st[i] # "new" /\ Sum(new) = Sum(loc[i]) + 1     \* (even of a message acknowledged meanwhile)
    /\ loc' = [loc EXCEPT ![i] = new]
    /\ st' = [st EXCEPT ![i] = "live"]
    /\ UNCHANGED <<now, meta, holder, origin, deliv, ret, cons, norder, transit, pend>>

(* the Redis consumer checks the time-to-live when it prefetches a message, not when consume()  *)
(* hands it over: a message that expires while it waits in the consumer's local queue is delivered *)
DevRedisPrefetchExpiry(c, i) ==
    /\ Dev("redis_prefetch_expiry") /\ "ttl" \in chk
    /\ Overdue(i) /\ cons[c].cat = "n"
    /\ meta[i].exp >= TimeAt(mvAt[i])        \* (it was alive when the consumer took it: it expired in the local queue)
    /\ Deliver(c, i, chk \ {"ttl"})

(* RabbitMQ broker: ack / nack / reject look the delivery tag up by MESSAGE ID in one map per broker object: a settling call of a   *)
(* consumer that no longer holds the message (its finish() has returned it meanwhile) settles the delivery of the consumer of the   *)
(* same broker object that has taken it since                                                                                        *)
DevRabbitSettleById(cl, i) ==
    /\ Dev("rabbit_settle_by_id") /\ "holder" \in chk
    /\ cl.op \in {"ack", "nack", "reject"} /\ cl.i = i /\ holder[i] # NoC /\ holder[i] # cl.c /\ loc[i] = U("p")
    /\ CASE cl.op = "ack" -> Ack(holder[i], i)
         [] cl.op = "nack" -> Nack(holder[i], i)
         [] cl.op = "reject" -> \E pl \in Cats : ReturnHeld(holder[i], i, pl)

(* the Redis consumer's overdue check is not restricted to the normal category *)
DevRedisExpireAnyCategory(c, i) ==
    /\ Dev("redis_expire_any_category")
    /\ Held(c, i) /\ ~deliv[i] /\ cons[c].cat # "n" /\ Overdue(i)
    /\ loc' = [loc EXCEPT ![i] = U("x")]
    /\ holder' = [holder EXCEPT ![i] = NoC]
    /\ UNCHANGED <<now, st, meta, origin, deliv, ret, cons, norder, transit, pend>>

(* C15 "no waiting message is overtaken indefinitely by later arrivals": every time a normal consumer is given a  *)
(* message that was enqueued after message j had fallen due, while j is still waiting, matching and alive, j has    *)
(* been overtaken once more; the count is bounded.                                                                  *)
StarveBound == 8
OvtAfter(i) ==
    IF loc[i] \in {U("n"), U("d")} /\ loc'[i] = U("p") /\ holder'[i] # NoC /\ cons[holder'[i]].cat = "n"
    THEN [j \in Ids |-> IF /\ j # i /\ Live(j) /\ holder[j] = NoC /\ (loc[j] = U("n") \/ loc[j] = U("d"))
                          /\ meta[j].due # NoTime /\ meta[j].due <= now /\ enqAt[i] > meta[j].due
                          /\ enqAt[i] > arrAt[j]      \* (a later arrival: it came after j fell due AND after j last came to wait -- what was
                                                      \*  already waiting when a message is returned behind it does not overtake it)
                          /\ Matches(holder'[i], j) /\ ~Overdue(j)
                       THEN ovt[j] + 1 ELSE ovt[j]]
    ELSE [j \in Ids |-> IF j = i THEN 0 ELSE ovt[j]]

(* Once a listed deviation has fired on a message, what happens to that message afterwards is a  *)
(* consequence of the known defect: it is followed, but no longer judged (only when re-validating a *)
(* rejected trace with deviations enabled; other messages stay under the full contract).           *)
FreeMove(i, new, c) ==
    /\ i \in taint
    /\ loc' = [loc EXCEPT ![i] = new]
    /\ st' = [st EXCEPT ![i] = IF new = Zero THEN "acked" ELSE "live"]
    /\ holder' = [holder EXCEPT ![i] = IF new.p > 0 THEN (IF c # 0 /\ holder[i] = NoC THEN c ELSE holder[i]) ELSE NoC]
    /\ norder' = Rm(norder, i)
    /\ transit' = [transit EXCEPT ![i] = FALSE]
    /\ UNCHANGED <<now, meta, origin, deliv, ret, cons, pend>>

-----------------------------------------------------------------------------
(* C05 owns the rule that a message with a due time ahead is not put where normal consumers see it: without the `early'  *)
(* clause the same steps are allowed to place it in n (so that such a run is judged by C05's check, not by every check).  *)
EarlyEnqueue(i, m) ==
    /\ st[i] = "new" /\ loc[i] = Zero /\ m.due # NoTime /\ m.due > now
    /\ st' = [st EXCEPT ![i] = "live"] /\ meta' = [meta EXCEPT ![i] = m] /\ loc' = [loc EXCEPT ![i] = U("n")]
    /\ UNCHANGED <<now, holder, origin, deliv, ret, cons, norder, transit, pend>>
EarlyRequeue(c, i, m) ==
    /\ Held(c, i) /\ m.due # NoTime /\ m.due > now
    /\ meta' = [meta EXCEPT ![i] = m] /\ loc' = [loc EXCEPT ![i] = U("n")] /\ holder' = [holder EXCEPT ![i] = NoC]
    /\ ret' = [ret EXCEPT ![i] = TRUE]
    /\ UNCHANGED <<now, st, origin, deliv, cons, norder, transit, pend>>
EarlyRequeueInsert(i) ==
    /\ transit[i] /\ loc[i] = Zero /\ pend[i].due # NoTime /\ pend[i].due > now
    /\ meta' = [meta EXCEPT ![i] = pend[i]] /\ loc' = [loc EXCEPT ![i] = U("n")] /\ holder' = [holder EXCEPT ![i] = NoC]
    /\ ret' = [ret EXCEPT ![i] = TRUE] /\ transit' = [transit EXCEPT ![i] = FALSE]
    /\ UNCHANGED <<now, st, origin, deliv, cons, norder, pend>>

(* ... and that a message taken through the delayed category before its due time goes back there, not to where normal consumers see it *)
EarlyReturn(c, i) ==
    /\ Held(c, i) /\ origin[i] = "d" /\ ~DueOk(i)
    /\ loc' = [loc EXCEPT ![i] = U("n")] /\ holder' = [holder EXCEPT ![i] = NoC] /\ ret' = [ret EXCEPT ![i] = TRUE]
    /\ UNCHANGED <<now, st, meta, origin, deliv, cons, norder, transit, pend>>

TMove ==
    /\ Is("move") /\ Step
    /\ LET i == Ev.i  new == Vec(Ev.v)  k == Ev.k  cl == Call(Ev.k) IN
       /\ \/ /\ cl.op = "enqueue" /\ cl.i = i /\ ~cl.done
             /\ \/ \E pl \in {"n", "d"} : Enqueue(i, cl.m, pl)
                \/ "early" \notin chk /\ EarlyEnqueue(i, cl.m)
             /\ Done(k) /\ taint' = taint
          \/ /\ Promote({i}, chk) /\ UNCHANGED <<calls, taint>>
          \/ /\ Expire(i, chk) /\ UNCHANGED <<calls, taint>>
          \/ /\ Ev.c # 0 /\ Take(Ev.c, i, chk) /\ UNCHANGED <<calls, taint>>
          \/ /\ Ev.c # 0 /\ ExpireHeld(Ev.c, i, chk) /\ UNCHANGED <<calls, taint>>
          \/ /\ cl.op = "ack" /\ cl.i = i /\ ~cl.done /\ Ack(cl.c, i) /\ Done(k) /\ taint' = taint
          \/ /\ cl.op = "nack" /\ cl.i = i /\ ~cl.done /\ Nack(cl.c, i) /\ Done(k) /\ taint' = taint
          \/ /\ cl.op = "reject" /\ cl.i = i /\ ~cl.done
             /\ \/ \E pl \in Cats : Reject(cl.c, i, pl)
                \/ "early" \notin chk /\ EarlyReturn(cl.c, i)
             /\ Done(k) /\ taint' = taint
          \/ /\ cl.op = "requeue" /\ cl.i = i /\ ~cl.done
             /\ \/ /\ \E pl \in {"n", "d"} : Requeue(cl.c, i, cl.m, pl)
                   /\ Done(k)
                \/ /\ "early" \notin chk /\ EarlyRequeue(cl.c, i, cl.m) /\ Done(k)
                \/ /\ RequeueRemove(cl.c, i, cl.m) /\ UNCHANGED calls
                \/ /\ \E pl \in {"n", "d"} : RequeueInsert(i, pl)
                   /\ Done(k)
                \/ /\ "early" \notin chk /\ EarlyRequeueInsert(i) /\ Done(k)
             /\ taint' = taint
          \* queue_flush / queue_delete: messages of that queue (and only of that queue) vanish
          \/ /\ cl.op = "flush" /\ Drop(i, cl.m.q) /\ UNCHANGED <<calls, taint>>
          \/ /\ cl.op = "finish"
             /\ \/ \E pl \in Cats : ReturnHeld(cl.c, i, pl)
                \/ "early" \notin chk /\ EarlyReturn(cl.c, i)
             /\ UNCHANGED <<calls, taint>>
          \* a consumer gives back a message it had taken (prefetched) but not handed to its client
          \/ /\ Ev.c # 0 /\ holder[i] = Ev.c /\ ~deliv[i] /\ cl.op # "finish"
             /\ \E pl \in Cats : ReturnHeld(Ev.c, i, pl)
             /\ UNCHANGED <<calls, taint>>
          \* C03: the in-flight message of a consumer whose process died becomes deliverable again,
          \* once its execution timeout has elapsed -- and not before, and never while the holder is alive
          \/ /\ (k = 0 \/ cl.op = "maint") /\ holder[i] \in dead
             /\ \/ "reclaim" \in chk => now > rdl[i]
                \* (known finding: Redis keeps the in-flight clock in whole seconds: up to < 1 s early)
                \/ Dev("redis_reclaim_whole_second") /\ now > rdls[i]
             /\ \E pl \in Cats : ReturnHeld(holder[i], i, pl)
             /\ UNCHANGED <<calls, taint>>
          \* C14: the broker's maintenance never takes a message away from a holder that is alive (clause `holder')
          \/ /\ "holder" \notin chk /\ cl.op = "maint" /\ holder[i] # NoC /\ holder[i] \notin dead
             /\ \E pl \in Cats : ReturnHeld(holder[i], i, pl)
             /\ UNCHANGED <<calls, taint>>
          \* C12: a dead-lettered message stays retrievable: a consumer of the dead category never drops it for being overdue (clause `ttl')
          \/ /\ "ttl" \notin chk /\ Ev.c # 0 /\ Held(Ev.c, i) /\ ~deliv[i] /\ cons[Ev.c].cat = "x" /\ Overdue(i)
             /\ st' = [st EXCEPT ![i] = "gone"] /\ loc' = [loc EXCEPT ![i] = Zero] /\ holder' = [holder EXCEPT ![i] = NoC]
             /\ UNCHANGED <<now, meta, origin, deliv, ret, cons, norder, transit, pend, calls, taint>>
          \* C11: a consumer leaves the messages of topics it does not serve alone -- it never makes one disappear (clause `route')
          \/ /\ "route" \notin chk /\ Ev.c # 0 /\ cl.op = "consume" /\ Live(i) /\ holder[i] = NoC /\ ~transit[i] /\ new = Zero
             /\ cons[Ev.c].q = meta[i].q /\ ~Matches(Ev.c, i)
             /\ st' = [st EXCEPT ![i] = "gone"] /\ loc' = [loc EXCEPT ![i] = Zero] /\ norder' = Rm(norder, i)
             /\ UNCHANGED <<now, meta, holder, origin, deliv, ret, cons, transit, pend, calls, taint>>
          \* C14: settling one message (ack / nack / reject / requeue) never takes another one away from its holder (clause `holder')
          \/ /\ "holder" \notin chk /\ cl.op \in {"ack", "nack", "reject", "requeue"} /\ cl.i # i /\ holder[i] # NoC /\ loc[i] = U("p")
             /\ \E pl \in Cats : ReturnHeld(holder[i], i, pl)
             /\ UNCHANGED <<calls, taint>>
          \* C14: a settling call of somebody who no longer holds the message never settles its present holder's delivery (clause `holder')
          \/ /\ "holder" \notin chk /\ cl.op \in {"ack", "nack", "reject"} /\ cl.i = i /\ holder[i] # NoC /\ holder[i] # cl.c /\ loc[i] = U("p")
             /\ CASE cl.op = "ack" -> Ack(holder[i], i)
                  [] cl.op = "nack" -> Nack(holder[i], i)
                  [] cl.op = "reject" -> \E pl \in Cats : ReturnHeld(holder[i], i, pl)
             /\ UNCHANGED <<calls, taint>>
          \* C14: finish() of a consumer returns its own messages only (clause `holder')
          \/ /\ "holder" \notin chk /\ cl.op = "finish" /\ holder[i] # NoC /\ holder[i] # cl.c /\ loc[i] = U("p")
             /\ \E pl \in Cats : ReturnHeld(holder[i], i, pl)
             /\ UNCHANGED <<calls, taint>>
          \* ---- deviations of listed known findings (only in re-validation; the message is tainted from here on)
          \/ /\ \/ Ev.c # 0 /\ DevRedisWholeSecond(Ev.c, i)
                \/ Ev.c # 0 /\ DevRedisLifoWindow(Ev.c, i)
             /\ UNCHANGED <<calls, taint>>             \* (these two leave the life cycle intact: no taint)
          \/ /\ \/ Ev.c # 0 /\ DevRedisExpireAnyCategory(Ev.c, i)
                \/ DevRedisDoubleTakeGhost(Ev.c, i, new)
                \/ cl.op = "reject" /\ cl.i = i /\ DevRejectToNormal(cl.c, i)
                \/ DevRabbitSettleById(cl, i)
                \/ cl.op = "finish" /\ (DevFinishForeign(cl.c, i) \/ DevFinishToNormal(cl.c, i))
             /\ UNCHANGED calls /\ taint' = taint \cup {i}
          \/ /\ FreeMove(i, new, Ev.c) /\ UNCHANGED <<calls, taint>>
       /\ loc'[i] = new
    /\ rdl' = IF Ev.rdl # 0 THEN [rdl EXCEPT ![Ev.i] = Ev.rdl] ELSE rdl
    /\ rdls' = IF Ev.rdl # 0 THEN [rdls EXCEPT ![Ev.i] = Ev.rdls] ELSE rdls
    /\ UNCHANGED <<chk, devs, dead, unsure>>
    /\ enqAt' = IF st[Ev.i] = "new" \/ (Call(Ev.k).op = "requeue" /\ Call(Ev.k).i = Ev.i /\ Vec(Ev.v) # Zero) THEN [enqAt EXCEPT ![Ev.i] = now] ELSE enqAt
    /\ ovt' = OvtAfter(Ev.i)
    /\ mvAt' = [mvAt EXCEPT ![Ev.i] = l] /\ hot' = hot
    \* the latency clock of a message that comes back to a waiting place (returned, reclaimed, re-queued) runs from that moment
    /\ retdl' = [retdl EXCEPT ![Ev.i] = IF Ev.ldl # 0 THEN Ev.ldl ELSE 0]
    \* when the message last came to a waiting place from somewhere else (enqueued, re-queued, returned, reclaimed)
    /\ arrAt' = IF (loc[Ev.i].p > 0 \/ loc[Ev.i] = Zero) /\ Vec(Ev.v).p = 0 /\ Vec(Ev.v) # Zero THEN [arrAt EXCEPT ![Ev.i] = now] ELSE arrAt
    \* (the Redis fetch-window defect, once listed as a known finding, also explains unbounded overtaking)
    /\ (("starve" \in chk /\ ~Dev("redis_lifo_window")) => \A j \in Ids : ovt'[j] <= StarveBound)

(* End of a call.  ok: the effect must have been applied.  exc/cancel: all or nothing.           *)
TEnd ==
    /\ Is("end") /\ Step
    /\ LET k == Ev.k  cl == Call(Ev.k) IN
       /\ k \in DOMAIN calls
       /\ CASE cl.op = "consume" ->
                 IF Ev.st = "ok"
                 THEN /\ \/ Deliver(cl.c, Ev.i, chk) /\ taint' = taint
                         \/ DevRedisDoubleTake(cl.c, Ev.i) /\ taint' = taint \cup {Ev.i}
                         \/ DevRedisDoubleTakeStale(cl.c, Ev.i) /\ taint' = taint \cup {Ev.i}
                         \/ DevRedisPrefetchExpiry(cl.c, Ev.i) /\ taint' = taint
                         \/ Ev.i \in taint /\ Deliver(cl.c, Ev.i, {}) /\ taint' = taint
                      \* C07: what was enqueued is what arrives (a delivery that a listed deviation explains -- the stale copy of a double take -- is not judged)
                      /\ (("content" \in chk /\ Ev.i \notin taint') => meta[Ev.i].ver = Ev.ver)
                      /\ Done(k)
                 ELSE UNCHANGED vars /\ Done(k) /\ taint' = taint
            [] cl.op = "enqueue" ->
                 /\ (Ev.st = "ok" => cl.done)
                 /\ UNCHANGED vars /\ UNCHANGED <<calls, taint>>
            [] cl.op \in {"ack", "nack", "reject"} ->
                 \* (a call on a message the caller does not hold is the caller's fault; a message that a concurrent finish() of
                 \*  its consumer returned while the call was under way is back in its queue: the call had nothing left to do)
                 \*  (... or that a finish() of its consumer, still under way, is about to return: the settling call may leave it to that)
                 /\ ((Ev.st = "ok" /\ cl.h0 /\ cl.i \notin taint /\ Held(cl.c, cl.i))
                        => (cl.done \/ \E k2 \in DOMAIN calls : calls[k2].op = "finish" /\ calls[k2].c = cl.c /\ ~calls[k2].done))
                 /\ UNCHANGED vars /\ UNCHANGED <<calls, taint>>
            [] cl.op = "requeue" ->
                 /\ ((Ev.st = "ok" /\ cl.h0 /\ cl.i \notin taint) => cl.done)
                 /\ \/ /\ (cl.i \notin taint => ~transit[cl.i])      \* never left in the remove/add gap
                       /\ UNCHANGED vars /\ UNCHANGED <<calls, taint>>
                    \* known finding: RabbitMQ requeue = ack, then publish; interrupted in between, the message is gone
                    \/ /\ Dev("rabbit_requeue_gap") /\ Ev.st # "ok" /\ transit[cl.i]
                       /\ transit' = [transit EXCEPT ![cl.i] = FALSE]
                       /\ st' = [st EXCEPT ![cl.i] = "acked"] /\ holder' = [holder EXCEPT ![cl.i] = NoC]
                       /\ UNCHANGED <<now, loc, meta, origin, deliv, ret, cons, norder, pend, calls>>
                       /\ taint' = taint \cup {cl.i}
            [] cl.op = "flush" ->
                 \* a completed flush leaves no waiting message of its queue behind that nobody has touched since it began
                 /\ (Ev.st = "ok" => \A j \in Ids : ~(Droppable(j, cl.m.q) /\ loc[j].p = 0 /\ mvAt[j] < cl.l0 /\ j \notin taint))
                 /\ UNCHANGED vars /\ UNCHANGED calls /\ taint' = taint \cup InFlight(cl.m.q)
            [] cl.op = "finish" ->
                 /\ IF Ev.st = "ok" THEN Stop(cl.c) ELSE UNCHANGED vars
                 /\ Done(k) /\ taint' = taint
            [] OTHER -> UNCHANGED vars /\ UNCHANGED <<calls, taint>>
    \* a start() that was interrupted may or may not have taken effect: that consumer is not known to be listening
    /\ unsure' = IF (Call(Ev.k).op = "start" /\ Ev.st # "ok") THEN unsure \cup {Call(Ev.k).c} ELSE unsure
    /\ UNCHANGED <<chk, devs, rdl, rdls, dead, enqAt, ovt, mvAt, retdl, arrAt>>
    \* C15 at the hand-over: the messages a consumer has taken (prefetched) reach its client in the order they were taken -- a
    \* message is not handed over after one of the same priority that the consumer took later (hot: per consumer and priority,
    \* the latest take position among the messages handed over so far; a returned message gets a new position when taken again)
    /\ LET cl == Call(Ev.k)  handed == (cl.op = "consume" /\ Ev.st = "ok")
           pr == IF handed /\ meta[Ev.i].prio \in 0..10 THEN meta[Ev.i].prio ELSE 0 IN
       /\ hot' = IF handed THEN [hot EXCEPT ![cl.c][pr] = IF mvAt[Ev.i] > @ THEN mvAt[Ev.i] ELSE @] ELSE hot
       /\ (handed /\ "fifo" \in chk /\ Ev.i \notin taint /\ cons[cl.c].cat = "n") => mvAt[Ev.i] > hot[cl.c][pr]

(* full observation of the broker: the contract state must agree with it for every id *)
TObs == /\ Is("obs") /\ Step
        /\ \A j \in Ids : loc[j] = (IF j <= Len(Ev.v) THEN Vec(Ev.v[j]) ELSE Zero)
        /\ UNCHANGED <<vars, calls, chk, devs, taint, rdl, rdls, dead, unsure, enqAt, ovt, mvAt, hot, retdl, arrAt>>

(* the process owning these consumers died without any cleanup *)
TCrash == /\ Is("crash") /\ Step
          /\ dead' = dead \cup ToSet(Ev.cs)
          /\ UNCHANGED <<vars, calls, chk, devs, taint, rdl, rdls, unsure, enqAt, ovt, mvAt, hot, retdl, arrAt>>

(* the recorder's guard against calls that spin without time passing.  Nothing of the contract explains a spin -- except the     *)
(* recorded finding redis-expire-any-category: a consumer of the DEAD category finds a dead-lettered message overdue, nacks it     *)
(* straight back into the dead list and takes it again, for ever (the message is tainted by that deviation by then)                *)
TSpin == /\ Is("spin") /\ Step
         /\ Dev("redis_expire_any_category") /\ taint # {}
         /\ UNCHANGED <<vars, calls, chk, devs, taint, rdl, rdls, dead, unsure, enqAt, ovt, mvAt, hot, retdl, arrAt>>

TraceConsCfgs == {[c \in Consumers |-> [on |-> FALSE, q |-> 0, cat |-> "n", topics |-> {}]]}
TNext == THdr \/ TCrash \/ TObs \/ TCons \/ TTime \/ TBegin \/ TMove \/ TEnd \/ TSpin
TSpec == TInit /\ [][TNext]_allvars

Progress == TLCSet(tid, IF TLCGet(tid) < l THEN l ELSE TLCGet(tid))
Accepted == {t \in 1..Len(Traces) : TLCGet(t) # Len(Traces[t]) + 1 /\ PrintT(<<"REJECT", t, TLCGet(t)>>)} = {} \/ TRUE
=============================================================================
