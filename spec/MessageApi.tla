----------------------------- MODULE MessageApi -----------------------------
(***************************************************************************)
(* C16: the message handle (repid.Message when iterating a queue,          *)
(* MessageDependency inside an actor) as a state machine.  Exactly one     *)
(* terminal action succeeds per handle; refusals (category, used handle,   *)
(* spent retry budget) raise and touch nothing; after an eager response    *)
(* the registered callbacks run in registration order with the result      *)
(* store at the position of the latest set_result/set_exception, and the   *)
(* rest of the actor body does not run.                                    *)
(***************************************************************************)
EXTENDS Integers, Sequences, SequencesExt, TLC

Terminal == {"ack", "nack", "reject", "reschedule", "retry", "force_retry"}
Setters == {"set_result", "set_exception"}
BrokerOp(o) == IF o \in {"reschedule", "retry", "force_retry"} THEN "requeue" ELSE o

VARIABLES cat,     \* "n" | "d" | "x"  category the message was taken through
          tried, max, resOn,
          ro,      \* handle used
          log,     \* broker calls caused so far
          cbs,     \* callbacks registered (tokens), in order
          spos,    \* 0, or the position at which the result store will run
          order,   \* what ran after the eager response
          stopped  \* the actor body was left by the eager response
vars == <<cat, tried, max, resOn, ro, log, cbs, spos, order, stopped>>

Refused(o) == \/ (o \in {"nack", "retry", "force_retry"} /\ cat # "n")
              \/ ro
              \/ (o = "retry" /\ tried >= max)
              \/ (o \in Setters /\ ~resOn)

(* one API call; `dep` = the handle is a MessageDependency (callbacks run, body stops) *)
Call(o, dep, raised, calls) ==
    /\ ~stopped
    /\ raised = Refused(o)
    /\ IF Refused(o)
       THEN calls = <<>> /\ UNCHANGED vars
       ELSE IF o \in Terminal
       THEN /\ calls = <<BrokerOp(o)>>
            /\ log' = Append(log, BrokerOp(o)) /\ ro' = TRUE
            /\ IF dep THEN /\ stopped' = TRUE
                           /\ order' = IF spos = 0 THEN cbs ELSE InsertAt(cbs, spos, "store")
                      ELSE UNCHANGED <<stopped, order>>
            /\ UNCHANGED <<cat, tried, max, resOn, cbs, spos>>
       ELSE /\ calls = <<>>                                        \* set_result / set_exception
            /\ spos' = Len(cbs) + 1
            /\ UNCHANGED <<cat, tried, max, resOn, ro, log, cbs, order, stopped>>
(* a terminal action that is not refused but whose broker call fails (the broker is unreachable): the attempt is made, *)
(* nothing is used up -- the handle can still be disposed of once the broker is back                                     *)
CallFailing(o, calls) ==
    /\ ~stopped /\ ~Refused(o) /\ o \in Terminal
    /\ calls = <<BrokerOp(o)>>
    /\ UNCHANGED vars
AddCallback(tok) ==
    /\ ~stopped /\ cbs' = Append(cbs, tok)
    /\ UNCHANGED <<cat, tried, max, resOn, ro, log, spos, order, stopped>>

(* ---- model checking instance: all call sequences ---- *)
CONSTANTS MaxLen
VARIABLE n
\* (tried > max: a forced retry takes the counter past the budget)
Init == /\ cat \in {"n", "d", "x"} /\ max \in 0..1 /\ tried \in 0..2 /\ resOn \in BOOLEAN
        /\ ro = FALSE /\ log = <<>> /\ cbs = <<>> /\ spos = 0 /\ order = <<>> /\ stopped = FALSE /\ n = 0
Next == /\ n < MaxLen /\ n' = n + 1
        /\ \/ \E o \in Terminal \cup Setters, dep \in BOOLEAN, r \in BOOLEAN, c \in {<<>>} \cup {<<BrokerOp(x)>> : x \in Terminal} :
                 (dep => cat = "n") /\ Call(o, dep, r, c)
           \/ AddCallback(n)
           \/ \E o \in Terminal : CallFailing(o, <<BrokerOp(o)>>)
Spec == Init /\ [][Next]_<<vars, n>>
OneTerminal == Len(log) <= 1
UsedIffLogged == ro <=> Len(log) = 1
AfterUse == [][ro => (log' = log /\ ro')]_<<vars, n>>
StoreInOrder == (stopped /\ spos # 0) => (Len(order) = Len(cbs) + 1 /\ order[spos] = "store")
=============================================================================
