SPECIFICATION Spec
CONSTANTS
  Ops = {1, 2, 3}
  Conns = {1, 2}
INVARIANT OncePerOp
INVARIANT BeforePrecedesEffect
INVARIANT AfterIffSuccess
INVARIANT NestedSilent
INVARIANT RightConnection
