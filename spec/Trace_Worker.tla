----------------------------- MODULE Trace_Worker -----------------------------
(***************************************************************************)
(* Trace validation of complete Worker runs.  The broker-level events are  *)
(* validated exactly as in Trace_BrokerAbs (every observed move explained  *)
(* by the broker contract); on top of them this module follows each        *)
(* delivery through the worker's pipeline                                  *)
(*      got -> run (actor_run) -> ended -> done (one terminal action)       *)
(* and states C02 C03 C04 C06 C09 C10 C11 as guards on the events:         *)
(*   dispo : exactly one terminal action per delivery, the one the         *)
(*           decision table (Disposition) prescribes; none after eager      *)
(*   retry : attempt counter +1 per retry, <= max unless forced; back-off   *)
(*   recur : successor of a recurring job: counter 0, ttl clock restarted,  *)
(*           now < due' <= now+P, due' >= scheduled(prev)+P                 *)
(*   limit : actor bodies in progress <= tasks_limit                        *)
(*   mlimit: actor executions started <= messages_limit                     *)
(*   route : the function that ran is the actor registered for the topic   *)
(*   stop  : run() returns before stop+grace+slack; afterwards nothing is   *)
(*           in flight, nothing both disposed and returned                  *)
(***************************************************************************)
EXTENDS Trace_BrokerAbs, Disposition

VARIABLES ph,       \* id -> "idle" | "got" | "run" | "ended" | "killed" | "done"
          dv,       \* id -> parameters of the current delivery [tried, max, rec, res, due]
          out,      \* id -> outcome of the last actor_run: "none" | "ok" | "fail" | "eager" | "killed"
          nact,     \* id -> terminal broker actions applied by the worker since the delivery
          cw,       \* consumer -> worker number (0: a client outside any worker)
          running, started,  \* actor bodies in progress / started during this run
          wc,       \* worker configuration and shutdown state
          rs,       \* id -> result bookkeeping [n: stores attempted, ok: last successful store matches, due: a store is owed]
          ex        \* id -> [inb: actor bodies of this message in progress, okc: successful executions so far]
wvars == <<ph, dv, out, nact, cw, running, started, wc, rs, ex>>
wall == <<vars, tvars, wvars>>

DV0 == [tried |-> 0, max |-> 0, rec |-> FALSE, res |-> FALSE, due |-> 0]
WC0 == [tl |-> 0, ml |-> 0, stop |-> FALSE, stopdl |-> 0, gdl |-> 0, forced |-> FALSE, ret |-> FALSE, donedl |-> 0]

WInit == /\ TInit
         /\ ph = [i \in Ids |-> "idle"] /\ dv = [i \in Ids |-> DV0] /\ out = [i \in Ids |-> "none"]
         /\ nact = [i \in Ids |-> 0] /\ cw = [c \in Consumers |-> 0]
         /\ running = 0 /\ started = 0 /\ wc = WC0
         /\ rs = [i \in Ids |-> [n |-> 0, good |-> TRUE, owed |-> FALSE]]
         /\ ex = [i \in Ids |-> [inb |-> 0, okc |-> 0]]

Has(x) == x \in chk
Terminal == {"ack", "nack", "reject", "requeue"}

(* ---- worker-only events --------------------------------------------------------------- *)
WCfg == /\ Is("wcfg") /\ Step
        /\ wc' = [wc EXCEPT !.tl = Ev.tl, !.ml = Ev.ml, !.donedl = Ev.donedl]
        /\ UNCHANGED <<vars, calls, chk, devs, taint, rdl, rdls, dead, unsure, enqAt, ovt, mvAt, hot, retdl, arrAt, ph, dv, out, nact, cw, running, started, rs, ex>>

WXs == /\ Is("xs") /\ Step
       /\ ph[Ev.i] = "got"
       /\ ph' = [ph EXCEPT ![Ev.i] = "run"]
       /\ UNCHANGED <<vars, calls, chk, devs, taint, rdl, rdls, dead, unsure, enqAt, ovt, mvAt, hot, retdl, arrAt, dv, out, nact, cw, running, started, wc, rs, ex>>

WXe == /\ Is("xe") /\ Step
       /\ ph[Ev.i] = "run"
       /\ out' = [out EXCEPT ![Ev.i] = Ev.out]
       /\ IF Ev.out = "eager"
          THEN /\ (Has("dispo") => nact[Ev.i] = 1)       \* the actor did answer the broker, once
               /\ ph' = [ph EXCEPT ![Ev.i] = "done"]
          ELSE IF Ev.out \in {"killed", "crash"}
          THEN /\ ph' = [ph EXCEPT ![Ev.i] = "killed"]
               \* C02: an exception that escapes actor_run leaves the delivery without a disposition
               /\ (Ev.out = "crash" => ~Has("dispo"))
          ELSE ph' = [ph EXCEPT ![Ev.i] = "ended"]
       /\ rs' = [rs EXCEPT ![Ev.i].owed = (dv[Ev.i].res /\ Ev.out \in {"ok", "fail"}) \/ (Ev.out = "eager" /\ @)]
       /\ ex' = [ex EXCEPT ![Ev.i].okc = IF Ev.out = "ok" /\ ~dv[Ev.i].rec THEN @ + 1 ELSE @]
       \* (a second successful execution is legitimate only after the message was returned by a shutdown
       \*  reject -- that redelivery discipline is the broker contract's; here: never two bodies at once, see WBs)
       /\ UNCHANGED <<vars, calls, chk, devs, taint, rdl, rdls, dead, unsure, enqAt, ovt, mvAt, hot, retdl, arrAt, dv, nact, cw, running, started, wc>>

(* C13: a result-bucket write for message i.  Only when results are enabled for i; it must carry  *)
(* the outcome of the execution that just finished (Ev.match, compared field by field by the      *)
(* recorder: success flag, encoded value / exception text and type, start <= finish, ttl).        *)
WStore == /\ Is("store") /\ Step
          /\ Has("result") => (dv[Ev.i].res /\ ph[Ev.i] \in {"run", "ended", "done"})
          /\ rs' = [rs EXCEPT ![Ev.i] = [n |-> @.n + 1, good |-> IF Ev.failed THEN @.good ELSE Ev.match,
                                         owed |-> IF Ev.failed THEN @.owed ELSE FALSE]]
          /\ UNCHANGED <<vars, calls, chk, devs, taint, rdl, rdls, dead, unsure, enqAt, ovt, mvAt, hot, retdl, arrAt, ph, dv, out, nact, cw, running, started, wc, ex>>

WBs == /\ Is("bs") /\ Step
       /\ running' = running + 1 /\ started' = started + 1
       /\ Has("limit") => running' <= wc.tl                       \* C09
       /\ (Has("mlimit") /\ wc.ml > 0) => started' <= wc.ml       \* C10
       /\ Has("route") => Ev.okfn                                 \* C11
       /\ Has("once") => ex[Ev.i].inb = 0                          \* C14: never two bodies of one message at once
       /\ ex' = [ex EXCEPT ![Ev.i].inb = @ + 1]
       /\ UNCHANGED <<vars, calls, chk, devs, taint, rdl, rdls, dead, unsure, enqAt, ovt, mvAt, hot, retdl, arrAt, ph, dv, out, nact, cw, wc, rs>>

WBe == /\ Is("be") /\ Step
       /\ running' = running - 1
       /\ ex' = [ex EXCEPT ![Ev.i].inb = @ - 1]
       /\ UNCHANGED <<vars, calls, chk, devs, taint, rdl, rdls, dead, unsure, enqAt, ovt, mvAt, hot, retdl, arrAt, ph, dv, out, nact, cw, started, wc, rs>>

WStop == /\ Is("stop") /\ Step
         /\ wc' = [wc EXCEPT !.stop = TRUE, !.stopdl = Ev.dl, !.gdl = Ev.gdl]
         /\ UNCHANGED <<vars, calls, chk, devs, taint, rdl, rdls, dead, unsure, enqAt, ovt, mvAt, hot, retdl, arrAt, ph, dv, out, nact, cw, running, started, rs, ex>>

WForced == /\ Is("forced") /\ Step
           \* running executions are cancelled only after a stop (request or messages limit), and not before the graceful period is over
           /\ (Has("stop") \/ Has("mlimit")) => (wc.stop /\ now >= wc.gdl)
           /\ wc' = [wc EXCEPT !.forced = TRUE]
           /\ UNCHANGED <<vars, calls, chk, devs, taint, rdl, rdls, dead, unsure, enqAt, ovt, mvAt, hot, retdl, arrAt, ph, dv, out, nact, cw, running, started, rs, ex>>

WRend == /\ Is("rend") /\ Step
         /\ (Has("stop") /\ wc.stop) => now <= wc.stopdl          \* C03: returns within grace + slack
         /\ wc' = [wc EXCEPT !.ret = TRUE]
         /\ UNCHANGED <<vars, calls, chk, devs, taint, rdl, rdls, dead, unsure, enqAt, ovt, mvAt, hot, retdl, arrAt, ph, dv, out, nact, cw, running, started, rs, ex>>

(* the loop is idle after run() returned *)
(* known finding (Redis): a message that the worker's consumer had marked in-flight but never handed to the runner  *)
(* when the stop arrived (the background fetch is cancelled between the take and the local queue, or the hand-over     *)
(* is dropped with the cancelled consume()) stays in `processing' until its execution timeout + maintenance            *)
StuckUndelivered(i) == Dev("redis_stop_leaves_in_flight") /\ loc[i].p = 1 /\ holder[i] # NoC /\ ~deliv[i]
WQuiet == /\ Is("quiet") /\ Step
          /\ (Has("stop") /\ wc.stop /\ dead = {} /\ now > wc.stopdl) => wc.ret     \* C03: a stopped (not killed) worker's run() has returned by then
          /\ Has("stop") =>
               \A i \in Ids :
                  /\ (ph[i] # "idle" /\ ~StuckUndelivered(i)) => (loc[i].p = 0 /\ ~transit[i])    \* nothing stays in flight
                  \* ... nor with one of the worker's consumers, even if the worker never got to see it
                  /\ (loc[i].p > 0 /\ holder[i] # NoC /\ holder[i] \notin dead /\ ~StuckUndelivered(i)) => cw[holder[i]] = 0
                  /\ (dead = {} /\ ph[i] \in {"got", "run", "ended", "killed"} /\ ~StuckUndelivered(i)) =>   \* taken but never disposed:
                        (st[i] = "live" /\ loc[i].n + loc[i].d = 1)          \*   back in its queue
          /\ Has("dispo") =>
               \A i \in Ids : (ph[i] = "ended" /\ ~wc.forced /\ dead = {}) => FALSE   \* an outcome was never reported
          /\ (Has("mlimit") /\ wc.ml > 0) =>
               \A i \in Ids : st[i] = "live" => (loc[i].p = 0 /\ ~transit[i])   \* beyond M: back in the queue
          /\ Has("route") =>                    \* C11: messages the worker has no actor for are left alone
               \A k \in 1..Len(Ev.foreign) :
                  LET i == Ev.foreign[k] IN st[i] = "live" /\ loc[i].n + loc[i].d = 1 /\ ph[i] = "idle"
          /\ Has("result") =>
               \A i \in Ids :
                  /\ rs[i].good                                               \* what is stored is the latest outcome
                  /\ ((~dv[i].res) => (rs[i].n = 0))                          \* disabled: nothing written
                  /\ ((rs[i].owed /\ ~Ev.storefault /\ ~wc.forced) => FALSE)  \* enabled: written
          /\ UNCHANGED <<vars, calls, chk, devs, taint, rdl, rdls, dead, unsure, enqAt, ovt, mvAt, hot, retdl, arrAt, wvars>>

(* every job of the scenario must have run by the scenario's deadline (bounded liveness, C09/C10) *)
WLate == /\ Is("late") /\ Step
         /\ Has("progress") => FALSE
         \* Worker.run() raising is never part of any of the worker properties' good behaviours
         /\ Ev.raised => ~(\E c \in {"dispo", "retry", "recur", "limit", "mlimit", "route", "stop", "result", "once", "ttlclock"} : Has(c))
         /\ UNCHANGED <<vars, calls, chk, devs, taint, rdl, rdls, dead, unsure, enqAt, ovt, mvAt, hot, retdl, arrAt, wvars>>

(* ---- shadow of the broker-level events -------------------------------------------------- *)
ByWorker(c) == c # 0 /\ cw[c] # 0

(* C02/C04/C06 at the moment the worker (or the actor, eagerly) starts a terminal broker call *)
(* Under a forced cancellation the worker rejects whatever its cancelled tasks were handling; it  *)
(* cannot know whether an interrupted broker call took effect, so this extra reject is judged by  *)
(* its effect on the broker state (base contract + the `stop' clause), not counted here.          *)
DispoOk(i, op, m) ==
  \/ op = "reject" /\ wc.forced
  \/
    /\ nact[i] = 0
    /\ CASE ph[i] = "run" -> TRUE                                            \* eager response
         [] ph[i] = "ended" ->
              LET d == Disposition(out[i], dv[i].tried, dv[i].max, dv[i].rec) IN
              /\ op = OpOf(d)
              /\ d = "retry" => m.tried = dv[i].tried + 1
              /\ d = "resched" => m.tried = 0
         [] ph[i] \in {"got", "killed"} ->                                   \* returned unprocessed:
              /\ op = "reject"                                               \*   forced shutdown / over the messages limit /
              /\ (wc.forced \/ (wc.ml > 0 /\ started >= wc.ml) \/ (wc.stop /\ ph[i] = "got"))   \*   taken but not started when told to stop
         [] OTHER -> FALSE
(* C04: a failed attempt with budget left is re-queued with the counter +1 (never beyond max     *)
(* unless forced), not before the policy's back-off, ttl clock untouched; when the budget is      *)
(* spent the chain ends (nack, or reschedule for a recurring job); a success ends it with ack.    *)
RetryOk(i, op, m) ==
    /\ ph[i] = "ended" =>
          LET d == Disposition(out[i], dv[i].tried, dv[i].max, dv[i].rec) IN
          /\ op = OpOf(d)
          /\ d = "retry" => (op = "requeue" /\ m.tried = dv[i].tried + 1 /\ m.tried <= dv[i].max
                             /\ m.due >= m.bo /\ m.exp = m.oldexp)
          /\ d = "resched" => m.tried = 0                  \* N+1 attempts *per scheduling*
    /\ (ph[i] = "run" /\ op = "requeue" /\ m.tried # 0) =>                   \* eager retry / force_retry
          /\ m.tried = dv[i].tried + 1
          /\ (m.forced = 0 => m.tried <= dv[i].max)
(* C06: a finished iteration of a recurring job gets exactly one successor: counter 0, ttl clock *)
(* restarted, strictly in the future, at most one period ahead, at least one period after the     *)
(* scheduled time of the iteration that just ran.                                                 *)
RecurOk(i, op, m) ==
    (ph[i] = "ended" /\ Disposition(out[i], dv[i].tried, dv[i].max, dv[i].rec) = "resched") =>
        /\ op = "requeue"
        /\ m.tried = 0
        /\ m.due > now /\ m.due <= m.nowP
        /\ m.due >= m.schedP
        /\ m.ts = now

WShadow ==
    CASE Is("cons") -> /\ cw' = [cw EXCEPT ![Ev.c] = Ev.w]
                       /\ UNCHANGED <<ph, dv, out, nact, running, started, wc, rs, ex>>
      [] Is("begin") /\ Ev.op \in Terminal /\ ByWorker(Ev.c) ->
                       /\ Has("dispo") => DispoOk(Ev.i, Ev.op, Ev.m)
                       /\ Has("retry") => RetryOk(Ev.i, Ev.op, Ev.m)
                       /\ Has("recur") => RecurOk(Ev.i, Ev.op, Ev.m)
                       \* C12: time-to-live counts from the latest *scheduling*: a reschedule (attempt counter back to 0)
                       \* restarts the clock, a retry does not touch it
                       /\ (Has("ttlclock") /\ Ev.op = "requeue") =>
                             ((Ev.m.tried = 0 => Ev.m.ts = now) /\ (Ev.m.tried # 0 => Ev.m.exp = Ev.m.oldexp))
                       /\ nact' = [nact EXCEPT ![Ev.i] = @ + 1]
                       /\ UNCHANGED <<ph, dv, out, cw, running, started, wc, rs, ex>>
      [] Is("end") /\ Call(Ev.k).op \in Terminal /\ ByWorker(Call(Ev.k).c) ->
                       /\ ph' = [ph EXCEPT ![Call(Ev.k).i] = IF @ \in {"ended", "got", "killed"} THEN "done" ELSE @]
                       /\ UNCHANGED <<dv, out, nact, cw, running, started, wc, rs, ex>>
      [] Is("end") /\ Call(Ev.k).op = "consume" /\ Ev.st = "ok" /\ ByWorker(Call(Ev.k).c) ->
                       /\ ph' = [ph EXCEPT ![Ev.i] = "got"]
                       /\ dv' = [dv EXCEPT ![Ev.i] = [tried |-> Ev.p.tried, max |-> Ev.p.max, rec |-> Ev.p.rec,
                                                      res |-> Ev.p.res, due |-> Ev.p.due]]
                       /\ nact' = [nact EXCEPT ![Ev.i] = 0]
                       /\ out' = [out EXCEPT ![Ev.i] = "none"]
                       /\ UNCHANGED <<cw, running, started, wc, rs, ex>>
      [] OTHER -> UNCHANGED wvars

WNext == \/ (TNext /\ WShadow)
         \/ WStore \/ WCfg \/ WXs \/ WXe \/ WBs \/ WBe \/ WStop \/ WForced \/ WRend \/ WQuiet \/ WLate
WSpec == WInit /\ [][WNext]_wall
=============================================================================
