SPECIFICATION TSpec
CONSTANTS
  Routers = {1, 2, 3, 4}
  Names = {1, 2, 3}
  Queues = {1, 2, 3}
  Fns = {1, 2, 3, 4, 5, 6, 7, 8, 9, 10, 11, 12, 13, 14, 15, 16}
CONSTRAINT Progress
POSTCONDITION Accepted
CHECK_DEADLOCK FALSE
