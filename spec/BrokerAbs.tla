------------------------------ MODULE BrokerAbs ------------------------------
(***************************************************************************)
(* Broker-independent CONTRACT of repid's message brokers: the life cycle  *)
(* of a message as the properties C01 C05 C07 C12 C14 C15 state it.        *)
(*                                                                         *)
(* A message id is physically in some multiset of places (n = waiting in   *)
(* the normal category, d = delayed, x = dead-lettered, p = in flight /    *)
(* processing).  `loc[i]` is the vector of occurrence counts as *observed* *)
(* in the broker; every contract action moves exactly one occurrence, so   *)
(* that a lost or duplicated message is representable (and rejected).      *)
(* Ghost state: who holds it, through which category it was taken, whether *)
(* the holder's consume() has handed it to the client yet.                 *)
(*                                                                         *)
(* The same actions are used (a) for exhaustive model checking with small  *)
(* constants, (b) as the oracle of trace validation (Trace_BrokerAbs) and  *)
(* (c) as the target of the refinement checks of the implementation-shaped *)
(* specs (BrokerInMem, BrokerRedis, BrokerRabbit).                         *)
(***************************************************************************)
EXTENDS Integers, Sequences, FiniteSets, SequencesExt, TLC

CONSTANTS Ids,        \* message ids (positive integers)
          Consumers,  \* consumer identities (positive integers)
          Topics,     \* topic numbers
          MaxTime,    \* model checking only: horizon of the clock
          Dues, Exps, \* model checking only: due times / expiry instants offered to Enqueue/Requeue
          ConsCfgs    \* model checking only: the consumer configurations to explore

NoTime == 0   \* all real instants are >= 1
NoC == 0
Cats == {"n", "d", "x"}
Zero == [n |-> 0, d |-> 0, x |-> 0, p |-> 0]
U(k) == [Zero EXCEPT ![k] = 1]

VARIABLES now,     \* clock
          st,      \* id -> "new" | "live" | "acked" | "gone" (removed by a flush / delete of its queue)
          loc,     \* id -> occurrence vector
          meta,    \* id -> [q, topic, prio, due, exp, dl, ver]
          holder,  \* id -> consumer holding it, or NoC
          origin,  \* id -> category through which the current holder took it
          deliv,   \* id -> TRUE once the holder's consume() returned it to the client
          ret,     \* id -> TRUE once it has been returned (reject / finish / requeue) at least once
          cons,    \* consumer -> [on, q, cat, topics]
          norder,  \* arrival order of the undelayed messages currently waiting in n
          transit, \* id -> TRUE while a non-atomic requeue has removed it but not yet re-inserted it
          pend     \* id -> the new meta of the requeue in transit
vars == <<now, st, loc, meta, holder, origin, deliv, ret, cons, norder, transit, pend>>

Meta0 == [q |-> 0, topic |-> 0, prio |-> 0, due |-> NoTime, exp |-> NoTime, dl |-> NoTime, ver |-> 0, dues |-> NoTime]

Sum(v) == v.n + v.d + v.x + v.p
Live(i) == st[i] = "live"
Overdue(i) == meta[i].exp # NoTime /\ now > meta[i].exp
DueOk(i) == meta[i].due = NoTime \/ meta[i].due <= now
Matches(c, i) == cons[c].q = meta[i].q /\ (cons[c].topics = {} \/ meta[i].topic \in cons[c].topics)
Held(c, i) == holder[i] = c /\ loc[i] = U("p")
Rm(s, i) == SelectSeq(s, LAMBDA y : y # i)
PosIn(s, i) == CHOOSE k \in 1..Len(s) : s[k] = i
InSeq(s, i) == \E k \in 1..Len(s) : s[k] = i

\* j is a waiting message that consumer c could be given right now
Eligible(c, j) == (loc[j] = U("n") \/ (loc[j] = U("d") /\ DueOk(j))) /\ Matches(c, j) /\ ~Overdue(j)

(* C15.  Taking i from the normal place is in FIFO order for consumer c unless a message that    *)
(* arrived (was enqueued or was returned) earlier, of the same priority, is still waiting and     *)
(* eligible.  A returned message and a message that came through the delayed category may itself  *)
(* be delivered at any time (but it may not be overtaken).                                          *)
FifoOk(c, i) ==
    (InSeq(norder, i) /\ ~ret[i]) =>
        \A k \in 1..(PosIn(norder, i) - 1) :
            ~(Eligible(c, norder[k]) /\ meta[norder[k]].prio = meta[i].prio)

AllChk == {"fifo", "early", "latency", "ttl", "holder", "content", "route"}
PlaceFor(m) == IF m.due = NoTime THEN "n" ELSE "d"

-----------------------------------------------------------------------------
Tick(t) == /\ t > now /\ now' = t
           /\ UNCHANGED <<st, loc, meta, holder, origin, deliv, ret, cons, norder, transit, pend>>

(* enqueue: a new id appears, in n if it carries no delay, in d if its due time is ahead; a due   *)
(* time that has already passed may land in either (RabbitMQ publishes it to the main queue).     *)
Enqueue(i, m, k) ==
    /\ st[i] = "new" /\ loc[i] = Zero
    /\ k \in (IF m.due = NoTime THEN {"n"} ELSE IF m.due > now THEN {"d"} ELSE {"n", "d"})
    /\ st' = [st EXCEPT ![i] = "live"]
    /\ meta' = [meta EXCEPT ![i] = m]
    /\ loc' = [loc EXCEPT ![i] = U(k)]
    /\ norder' = IF k = "n" /\ m.due = NoTime THEN Append(norder, i) ELSE norder
    /\ UNCHANGED <<now, holder, origin, deliv, ret, cons, transit, pend>>

(* C05: a delayed message becomes visible to the normal category only once it is due. *)
Promote(D, chk) ==
    /\ D # {} /\ \A i \in D : Live(i) /\ loc[i] = U("d") /\ ("early" \in chk => (meta[i].due # NoTime /\ meta[i].due <= now))
    /\ loc' = [i \in Ids |-> IF i \in D THEN U("n") ELSE loc[i]]
    /\ UNCHANGED <<now, st, meta, holder, origin, deliv, ret, cons, norder, transit, pend>>

(* C12: a waiting message whose time-to-live has run out is dead-lettered by the normal-category  *)
(* consumer that meets it -- and only then (now > exp, so exactly at the expiry it is still live). *)
Expire(i, chk) ==
    /\ Live(i) /\ ("ttl" \in chk => Overdue(i))
    /\ \/ loc[i] = U("n")
       \/ loc[i] = U("d") /\ ("early" \in chk => DueOk(i))
    \* (C11: ... and only by a consumer that serves its topic -- a message nobody here has an actor for is left alone)
    /\ \E c \in Consumers : cons[c].on /\ cons[c].cat = "n" /\ cons[c].q = meta[i].q /\ ("route" \in chk => Matches(c, i))
    /\ loc' = [loc EXCEPT ![i] = U("x")]
    /\ norder' = Rm(norder, i)
    /\ UNCHANGED <<now, st, meta, holder, origin, deliv, ret, cons, transit, pend>>

Start(c) == /\ cons' = [cons EXCEPT ![c].on = TRUE]
            /\ UNCHANGED <<now, st, loc, meta, holder, origin, deliv, ret, norder, transit, pend>>
Stop(c) == /\ cons' = [cons EXCEPT ![c].on = FALSE]
           /\ UNCHANGED <<now, st, loc, meta, holder, origin, deliv, ret, norder, transit, pend>>

(* The broker hands message i to consumer c (possibly ahead of the client's consume(): prefetch). *)
(* C14: only a message that is waiting, i.e. held by nobody.  C05/C12/C15 guards by category.     *)
(* (a broker without server-side topic filtering may let a consumer prefetch a message of a topic it does not serve;  *)
(*  it must then give it back: only matching messages are ever handed to the client, see Deliver)                      *)
TakeGuard(c, i, chk) ==
    /\ cons[c].on /\ Live(i) /\ cons[c].q = meta[i].q /\ holder[i] = NoC
    /\ CASE cons[c].cat = "n" -> /\ (loc[i] = U("n") \/ loc[i] = U("d"))
                                 /\ ("early" \in chk /\ loc[i] = U("d")) => (meta[i].due # NoTime /\ meta[i].due <= now)
                                 /\ "fifo" \in chk => FifoOk(c, i)
         [] cons[c].cat = "d" -> loc[i] = U("d")
         [] cons[c].cat = "x" -> loc[i] = U("x")
Take(c, i, chk) ==
    /\ TakeGuard(c, i, chk)
    /\ loc' = [loc EXCEPT ![i] = U("p")]
    /\ holder' = [holder EXCEPT ![i] = c]
    /\ origin' = [origin EXCEPT ![i] = cons[c].cat]
    /\ deliv' = [deliv EXCEPT ![i] = FALSE]
    /\ norder' = Rm(norder, i)
    /\ UNCHANGED <<now, st, meta, ret, cons, transit, pend>>

(* consume() of consumer c returns message i to the client: only the holder, only once per take. *)
Deliver(c, i, chk) ==
    /\ "holder" \in chk => (Held(c, i) /\ ~deliv[i])
    /\ "route" \in chk => Matches(c, i)      \* (C01 at the broker, C11 at the worker: only messages of its own queue and topics)
    /\ ("ttl" \in chk /\ cons[c].cat = "n") => ~Overdue(i)       \* C12: never handed over once expired
    /\ deliv' = [deliv EXCEPT ![i] = TRUE]
    /\ UNCHANGED <<now, st, loc, meta, holder, origin, ret, cons, norder, transit, pend>>

(* a consumer that took (prefetched) a message, finds it expired and dead-letters it itself instead *)
(* of handing it to the client (the two-step form of Expire used by brokers with server-side state) *)
ExpireHeld(c, i, chk) ==
    /\ Held(c, i) /\ ~deliv[i] /\ cons[c].cat = "n"
    /\ "ttl" \in chk => Overdue(i)
    /\ loc' = [loc EXCEPT ![i] = U("x")]
    /\ holder' = [holder EXCEPT ![i] = NoC]
    /\ UNCHANGED <<now, st, meta, origin, deliv, ret, cons, norder, transit, pend>>

Ack(c, i) ==
    /\ Held(c, i)
    /\ loc' = [loc EXCEPT ![i] = Zero] /\ st' = [st EXCEPT ![i] = "acked"]
    /\ holder' = [holder EXCEPT ![i] = NoC]
    /\ UNCHANGED <<now, meta, origin, deliv, ret, cons, norder, transit, pend>>

Nack(c, i) ==
    /\ Held(c, i)
    /\ loc' = [loc EXCEPT ![i] = U("x")]
    /\ holder' = [holder EXCEPT ![i] = NoC]
    /\ UNCHANGED <<now, st, meta, origin, deliv, ret, cons, norder, transit, pend>>

(* where a returned message may re-appear: the category it was taken through.  A message taken   *)
(* through the normal category that carries a (passed) due time may physically sit in d again.    *)
BackPlaces(i) == CASE origin[i] = "n" -> IF meta[i].due # NoTime /\ meta[i].due <= now THEN {"n", "d"}
                                          ELSE IF meta[i].due # NoTime THEN {"d"} ELSE {"n"}
                   [] origin[i] = "d" -> IF DueOk(i) THEN {"d", "n"} ELSE {"d"}
                   [] origin[i] = "x" -> {"x"}
GiveBack(i, k) ==
    /\ k \in BackPlaces(i)
    /\ loc' = [loc EXCEPT ![i] = U(k)]
    /\ holder' = [holder EXCEPT ![i] = NoC]
    /\ ret' = [ret EXCEPT ![i] = TRUE]
    /\ meta' = [meta EXCEPT ![i].dl = NoTime]     \* the latency clock of C05 is not restarted by a return
    \* C15: a message returned through the normal category takes its place in the arrival order at the moment of its
    \* return, wherever the broker physically keeps it (normal list, or delayed store with a due time already passed)
    /\ norder' = IF origin[i] = "n" /\ k \in {"n", "d"} THEN Append(Rm(norder, i), i) ELSE norder

Reject(c, i, k) ==
    /\ Held(c, i) /\ GiveBack(i, k)
    /\ UNCHANGED <<now, st, origin, deliv, cons, transit, pend>>

(* finish() of consumer c (or the reclaim after a crash) gives back a message c still holds *)
ReturnHeld(c, i, k) ==
    /\ Held(c, i) /\ GiveBack(i, k)
    /\ UNCHANGED <<now, st, origin, deliv, cons, transit, pend>>

(* requeue: the held message is replaced by its new payload/parameters under the same id.       *)
RequeuePlace(m) == IF m.due = NoTime THEN {"n"} ELSE IF m.due > now THEN {"d"} ELSE {"n", "d"}
Requeue(c, i, m, k) ==
    /\ Held(c, i) /\ k \in RequeuePlace(m)
    /\ meta' = [meta EXCEPT ![i] = m]
    /\ loc' = [loc EXCEPT ![i] = U(k)]
    /\ holder' = [holder EXCEPT ![i] = NoC]
    /\ ret' = [ret EXCEPT ![i] = TRUE]
    /\ norder' = IF k = "n" /\ m.due = NoTime THEN Append(Rm(norder, i), i) ELSE norder
    /\ UNCHANGED <<now, st, origin, deliv, cons, transit, pend>>
(* ... or, for brokers that implement it as remove-then-add, the two halves; the message is `in  *)
(* transit' in between, which is tolerated only while the call is in progress.                    *)
RequeueRemove(c, i, m) ==
    /\ Held(c, i) /\ ~transit[i]
    /\ loc' = [loc EXCEPT ![i] = Zero]
    /\ transit' = [transit EXCEPT ![i] = TRUE] /\ pend' = [pend EXCEPT ![i] = m]
    /\ UNCHANGED <<now, st, meta, holder, origin, deliv, ret, cons, norder>>
RequeueInsert(i, k) ==
    /\ transit[i] /\ loc[i] = Zero /\ k \in RequeuePlace(pend[i])
    /\ meta' = [meta EXCEPT ![i] = pend[i]]
    /\ loc' = [loc EXCEPT ![i] = U(k)]
    /\ holder' = [holder EXCEPT ![i] = NoC]
    /\ ret' = [ret EXCEPT ![i] = TRUE]
    /\ transit' = [transit EXCEPT ![i] = FALSE]
    /\ norder' = IF k = "n" /\ pend[i].due = NoTime THEN Append(Rm(norder, i), i) ELSE norder
    /\ UNCHANGED <<now, st, origin, deliv, cons, pend>>

(* queue_flush / queue_delete of queue q: every waiting, delayed and dead message of q is removed; a   *)
(* message of q that is in flight at that moment goes with the queue or stays with its holder (the     *)
(* brokers differ: the in-memory and Redis brokers keep the in-flight data with the queue, RabbitMQ     *)
(* keeps unacknowledged deliveries); messages of every other queue are untouched.  Drop is the          *)
(* per-message step (what a trace shows), Flush the whole operation.                                     *)
Droppable(i, q) == Live(i) /\ meta[i].q = q /\ ~transit[i] /\ Sum(loc[i]) = 1
Drop(i, q) ==
    /\ Droppable(i, q)
    /\ st' = [st EXCEPT ![i] = "gone"] /\ loc' = [loc EXCEPT ![i] = Zero]
    /\ holder' = [holder EXCEPT ![i] = NoC] /\ norder' = Rm(norder, i)
    /\ UNCHANGED <<now, meta, origin, deliv, ret, cons, transit, pend>>
Waiting(q) == {i \in Ids : Droppable(i, q) /\ loc[i].p = 0}
InFlight(q) == {i \in Ids : Droppable(i, q) /\ loc[i].p = 1}
Flush(q, H) ==
    /\ H \subseteq InFlight(q)
    /\ LET D == Waiting(q) \cup H IN
       /\ D # {}
       /\ st' = [i \in Ids |-> IF i \in D THEN "gone" ELSE st[i]]
       /\ loc' = [i \in Ids |-> IF i \in D THEN Zero ELSE loc[i]]
       /\ holder' = [i \in Ids |-> IF i \in D THEN NoC ELSE holder[i]]
       /\ norder' = SelectSeq(norder, LAMBDA y : y \notin D)
    /\ UNCHANGED <<now, meta, origin, deliv, ret, cons, transit, pend>>

-----------------------------------------------------------------------------
(* Model-checking instance: small sets of metas *)
MCQueues == {1}     \* (overridden by the configurations that explore flush with two queues)
FlushQs == {}       \* (idem: the queues on which Flush is explored)
MetaSet == [q : MCQueues, topic : Topics, prio : {1}, due : Dues, exp : Exps, dl : {NoTime}, ver : {1}, dues : {NoTime}]
ReMetaSet(i) == {[meta[i] EXCEPT !.due = d, !.exp = e, !.ver = 2] : d \in Dues, e \in Exps}

Init == /\ now = 1
        /\ st = [i \in Ids |-> "new"] /\ loc = [i \in Ids |-> Zero] /\ meta = [i \in Ids |-> Meta0]
        /\ holder = [i \in Ids |-> NoC] /\ origin = [i \in Ids |-> "n"] /\ deliv = [i \in Ids |-> FALSE]
        /\ ret = [i \in Ids |-> FALSE]
        /\ cons \in ConsCfgs
        /\ norder = <<>> /\ transit = [i \in Ids |-> FALSE] /\ pend = [i \in Ids |-> Meta0]

Next == \/ \E t \in (now + 1)..MaxTime : Tick(t)
        \/ \E i \in Ids, m \in MetaSet, k \in {"n", "d"} : Enqueue(i, m, k)
        \/ \E D \in SUBSET Ids : Promote(D, AllChk)
        \/ \E i \in Ids : Expire(i, AllChk)
        \/ \E c \in Consumers : (~cons[c].on /\ Start(c)) \/ (cons[c].on /\ Stop(c))
        \/ \E c \in Consumers, i \in Ids :
              \/ Take(c, i, AllChk) \/ Deliver(c, i, AllChk) \/ ExpireHeld(c, i, AllChk)
              \/ (deliv[i] /\ ~transit[i] /\ (Ack(c, i) \/ Nack(c, i)))
              \/ \E k \in Cats : (deliv[i] /\ ~transit[i] /\ Reject(c, i, k)) \/ (~transit[i] /\ ~cons[c].on /\ ReturnHeld(c, i, k))
              \/ \E m \in ReMetaSet(i), k \in {"n", "d"} : deliv[i] /\ ~transit[i] /\ Requeue(c, i, m, k)
              \/ \E m \in ReMetaSet(i) : deliv[i] /\ RequeueRemove(c, i, m)
        \/ \E i \in Ids, k \in {"n", "d"} : RequeueInsert(i, k)
        \/ \E q \in FlushQs : \E H \in SUBSET InFlight(q) : Flush(q, H)
Spec == Init /\ [][Next]_vars

-----------------------------------------------------------------------------
(* Properties *)
TypeOK == /\ \A i \in Ids : st[i] \in {"new", "live", "acked", "gone"} /\ holder[i] \in Consumers \cup {NoC}
(* C01: every message ever enqueued is in exactly one place (or finally acknowledged) *)
Conservation ==
    \A i \in Ids :
        /\ (st[i] = "live" /\ ~transit[i]) => (Sum(loc[i]) = 1)
        /\ (st[i] # "live") => (loc[i] = Zero)
        /\ transit[i] => (loc[i] = Zero /\ holder[i] # NoC)
(* C14: in flight <=> held by exactly one consumer *)
OneHolder == \A i \in Ids : (loc[i].p > 0 \/ transit[i]) <=> holder[i] # NoC
NorderSound == /\ \A k \in 1..Len(norder) : loc[norder[k]] \in {U("n"), U("d")}
               /\ \A a, b \in 1..Len(norder) : a # b => norder[a] # norder[b]
(* C05: never handed to a normal consumer before its due time; C12: never when expired *)
TakenNow(c, i) == holder[i] # c /\ holder'[i] = c
NeverEarly == [][\A c \in Consumers, i \in Ids : (TakenNow(c, i) /\ cons[c].cat = "n") => DueOk(i)]_vars
NoExpiredDelivery == [][\A i \in Ids : (~deliv[i] /\ deliv'[i] /\ holder[i] # NoC /\ cons[holder[i]].cat = "n") => ~Overdue(i)]_vars
NotDroppedWhileLive == [][\A i \in Ids : (loc[i].x = 0 /\ loc'[i].x = 1 /\ holder[i] = NoC) => Overdue(i)]_vars
OnlyViaDelayed == [][\A c \in Consumers, i \in Ids :
                       (TakenNow(c, i) /\ loc[i] = U("d") /\ ~DueOk(i)) => cons[c].cat = "d"]_vars
(* C01 action properties *)
AckRemoves == [][\A i \in Ids : (st[i] = "live" /\ st'[i] = "acked") => (loc[i] = U("p") /\ loc'[i] = Zero)]_vars
(* a message disappears without being acknowledged only by a flush of its own queue, which takes every waiting message of that queue *)
Vanishes(i) == st[i] = "live" /\ st'[i] = "gone"
FlushLocal == [][\A i, j \in Ids : (Vanishes(i) /\ Vanishes(j)) => meta[i].q = meta[j].q]_vars
FlushComplete == [][\A i, j \in Ids : (Vanishes(i) /\ Live(j) /\ meta[j].q = meta[i].q /\ loc[j].p = 0 /\ ~transit[j]) => Vanishes(j)]_vars
GoneIsFinal == [][\A i \in Ids : st[i] \in {"acked", "gone"} => st'[i] = st[i]]_vars
=============================================================================
