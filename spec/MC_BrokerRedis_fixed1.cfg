SPECIFICATION Spec
CONSTANTS
  Ids = {1, 2, 3}
  Consumers = {1}
  W = 2
  CheckedTake = TRUE
  ScanOldest = TRUE
INVARIANT OneHolder
INVARIANT NoDuplicateDelivery
INVARIANT Fifo
