---- MODULE MC_BrokerAbs ----
EXTENDS BrokerAbs
C(cat, tps) == [on |-> FALSE, q |-> 1, cat |-> cat, topics |-> tps]
MCConsCfgs == { <<C("n", {}), C("x", {})>>, <<C("n", {1}), C("n", {})>>, <<C("n", {}), C("d", {})>> }
MCConsCfgsQuick == { <<C("n", {}), C("x", {})>>, <<C("n", {}), C("n", {})>> }
MCConsCfgsAll == [Consumers -> [on : {FALSE}, q : {1}, cat : Cats, topics : SUBSET Topics]]
====
