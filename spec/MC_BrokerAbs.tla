---- MODULE MC_BrokerAbs ----
EXTENDS BrokerAbs
C(cat, tps) == [on |-> FALSE, q |-> 1, cat |-> cat, topics |-> tps]
MCConsCfgs == { <<C("n", {}), C("x", {})>>, <<C("n", {1}), C("n", {})>>, <<C("n", {}), C("d", {})>> }
MCConsCfgsQuick == { <<C("n", {}), C("x", {})>>, <<C("n", {}), C("n", {})>> }
MCConsCfgsAll == [Consumers -> [on : {FALSE}, q : {1}, cat : Cats, topics : SUBSET Topics]]
\* two queues, flush / delete explored on both
CQ(q, cat) == [on |-> FALSE, q |-> q, cat |-> cat, topics |-> {}]
MCTwoQueues == {1, 2}
MCConsCfgsFlush == { <<CQ(1, "n"), CQ(2, "n")>>, <<CQ(1, "n"), CQ(1, "x")>>, <<CQ(1, "d"), CQ(2, "n")>> }
====
