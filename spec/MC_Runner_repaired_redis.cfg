SPECIFICATION Spec
CONSTANTS
  Msgs = {"a", "b", "c"}
  TL = 1
  ML = 0
  MaxRetries = 1
  Repaired = TRUE
  FinishReturnsHeld = FALSE
INVARIANT Conservation
INVARIANT RunningBound
INVARIANT StartedBound
INVARIANT AtReturn
INVARIANT TriedBound
CONSTRAINT Bounded
