---- MODULE MC_Codec ----
EXTENDS Codec
CONSTANT N
VARIABLE c
Strs == UNION {[1..n -> Sym] : n \in 1..N}
Names == {s \in Strs : ValidName(s)}
IdsV == {s \in Strs : ValidId(s)}
Init == c \in [q : Names, t : Names, t2 : Names, i : IdsV]
Next == UNCHANGED c
Spec == Init /\ [][Next]_c
Prio == <<"D">>
RoundTrip == ParseOk(c.q, Prio, c.t, c.i) /\ ShortOk(c.t, c.i)
Filter == FilterOk(c.t, c.i, c.t2)
NoColon == \A s \in Names \cup IdsV : \A k \in 1..Len(s) : s[k] # "C"
====
