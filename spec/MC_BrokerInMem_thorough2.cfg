SPECIFICATION Spec
CONSTANTS
  Ids = {1, 2}
  Consumers = {1, 2}
  Topics = {1, 2}
  MaxTime = 3
  Dues = {0, 2}
  Ttls = {0, 1}
  ConsCfg <- CfgND
INVARIANT Conservation
INVARIANT TakenIffProcessing
INVARIANT NoEmptyBucket
INVARIANT AbsConservation
INVARIANT AbsOneHolder
PROPERTY Refines
PROPERTY AbsNeverEarly
PROPERTY AbsNoExpiredDelivery
