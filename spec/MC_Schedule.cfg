SPECIFICATION Spec
INVARIANT BoOk
INVARIANT NeOk
INVARIANT OdOk
