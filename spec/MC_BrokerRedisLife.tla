------------------------ MODULE MC_BrokerRedisLife ------------------------
EXTENDS BrokerRedisLife
CfgND == <<"n", "d">>
CfgNX == <<"n", "x">>
CfgNDX == <<"n", "d", "x">>
FalseC == FALSE
NoHist == <<now, list, zset, deadl, proc, hash, local, on, gone, heldc>>
(* behaviours for replay: the background tasks of the consumers that are listening run to quiescence before the client's next call; *)
(* the rejects of a finish() follow it at once                                                                                         *)
PrefetchEnabled == \E c \in Consumers : on[c] /\ Next4(c) # 0
Finishing == \E c \in Consumers : ~on[c] /\ ~gone[c] /\ local[c] # <<>>
SimOrder == /\ Finishing => hist'[1] = "finish_reject"
            \* (two consumers that can take the same name race for it round trip by round trip: that is BrokerRedis.tla's subject --
            \*  here the normal and the delayed-category consumer do not listen at the same time)
            /\ ~(on'[1] /\ on'[2])
            \* one call of maintenance() reclaims everything that has timed out
            /\ (hist[1] = "maint" /\ TimedOut # {}) => hist'[1] = "maint"
            \* (what a LIVE consumer holds is settled before its execution timeout: the reclaim from a live holder is not modelled)
            /\ (hist'[1] = "tick") => \A p \in proc : Orphan(p[1]) \/ (now + 1) - p[2] <= Tmo
            \* (the time-to-live of a recurring message runs from its timestamp, which the replay uses as the anchor of the period grid)
            /\ (hist'[1] = "enqueue" /\ hist'[3] = "defer") => hist'[5] = 0
            /\ (hist'[1] = "requeue" /\ hist'[4] = "defer") => hist'[6] = 0
            /\ (PrefetchEnabled /\ ~Finishing) => hist'[1] \in {"prefetch", "prefetch_expired"}
=============================================================================
