------------------------ MODULE MC_BrokerRedisLife ------------------------
EXTENDS BrokerRedisLife
CfgND == <<"n", "d">>
CfgNX == <<"n", "x">>
CfgNDX == <<"n", "d", "x">>
FalseC == FALSE
NoHist == <<now, list, zset, deadl, proc, hash, local, on, gone, heldc, tk, orig, ret, norder, dlv>>
(* ---- refinement of the contract BrokerAbs (up to the recorded findings of this broker: the fetch window is scanned from its  *)
(* newest side, the time-to-live is judged at the prefetch and in every category)                                                 *)
U(k) == [[n |-> 0, d |-> 0, x |-> 0, p |-> 0] EXCEPT ![k] = 1]
AbsLoc == [i \in Ids |-> [n |-> CountIn(list, i), d |-> Cardinality({z \in zset : z[1] = i}), x |-> CountIn(deadl, i),
                          p |-> Cardinality({p \in proc : p[1] = i})]]
AbsMeta0 == [q |-> 0, topic |-> 0, prio |-> 0, due |-> 0, exp |-> 0, dl |-> 0, ver |-> 0, dues |-> 0]
DueOfH(h) == IF h.kind = "none" THEN 0 ELSE h.due
AbsMeta == [i \in Ids |-> IF ~hash[i].live /\ ~hash[i].acked THEN AbsMeta0
                          ELSE [q |-> 1, topic |-> 0, prio |-> 1, due |-> DueOfH(hash[i]), exp |-> hash[i].exp, dl |-> 0, ver |-> 1, dues |-> 0]]
AbsSt == [i \in Ids |-> IF hash[i].live THEN "live" ELSE IF hash[i].acked THEN "acked" ELSE "new"]
AbsCons == [c \in Consumers |-> [on |-> on[c], q |-> 1, cat |-> ConsCfg[c], topics |-> {}]]
Abs == INSTANCE BrokerAbs WITH st <- AbsSt, loc <- AbsLoc, meta <- AbsMeta, holder <- tk, origin <- orig, deliv <- dlv, cons <- AbsCons,
                               transit <- [i \in Ids |-> FALSE], pend <- [i \in Ids |-> AbsMeta0],
                               Topics <- {0}, Exps <- 0..(MaxTime + 3), ConsCfgs <- {}
Chk == Abs!AllChk \ {"fifo", "ttl"}
AbsStepR ==
    \/ \E t \in (now + 1)..MaxTime : Abs!Tick(t)
    \/ \E i \in Ids, k \in {"n", "d"} : Abs!Enqueue(i, AbsMeta'[i], k)
    \/ \E c \in Consumers : Abs!Start(c) \/ Abs!Stop(c)
    \/ \E c \in Consumers, i \in Ids :
          \/ Abs!Take(c, i, Chk) \/ Abs!Deliver(c, i, Chk) \/ Abs!Ack(c, i) \/ Abs!Nack(c, i)
          \/ \E k \in {"n", "d", "x"} : Abs!Reject(c, i, k) \/ Abs!ReturnHeld(c, i, k)
          \/ \E k \in {"n", "d"} : Abs!Requeue(c, i, AbsMeta'[i], k)
          \* one prefetch that finds the message expired: taken and dead-lettered in one step (any category: the recorded finding)
          \/ /\ Abs!TakeGuard(c, i, Chk) /\ Overdue(i)
             /\ AbsLoc' = [AbsLoc EXCEPT ![i] = U("x")] /\ norder' = Rm(norder, i) /\ orig' = [orig EXCEPT ![i] = ConsCfg[c]]
             /\ UNCHANGED <<now, AbsSt, AbsMeta, tk, dlv, ret, AbsCons>>
    \* a reject / maintenance that finds nothing to return (the message is gone or not in flight any more)
    \/ UNCHANGED <<now, AbsSt, AbsLoc, AbsMeta, tk, orig, dlv, ret, AbsCons, norder>>
absvars == <<now, AbsSt, AbsLoc, AbsMeta, tk, orig, dlv, ret, AbsCons, norder>>
Refines == [][AbsStepR]_absvars
AbsConservation == Abs!Conservation
AbsOneHolder == Abs!OneHolder
AbsNorderSound == Abs!NorderSound
AbsNeverEarly == Abs!NeverEarly
AbsNotDroppedWhileLive == Abs!NotDroppedWhileLive
AbsAckRemoves == Abs!AckRemoves

(* behaviours for replay: the background tasks of the consumers that are listening run to quiescence before the client's next call; *)
(* the rejects of a finish() follow it at once                                                                                         *)
PrefetchEnabled == \E c \in Consumers : on[c] /\ Next4(c) # 0
Finishing == \E c \in Consumers : ~on[c] /\ ~gone[c] /\ local[c] # <<>>
SimOrder == /\ Finishing => hist'[1] = "finish_reject"
            \* (two consumers that can take the same name race for it round trip by round trip: that is BrokerRedis.tla's subject --
            \*  here the normal and the delayed-category consumer do not listen at the same time)
            /\ ~(on'[1] /\ on'[2])
            \* one call of maintenance() reclaims everything that has timed out
            /\ (hist[1] = "maint" /\ TimedOut # {}) => hist'[1] = "maint"
            \* (what a LIVE consumer holds is settled before its execution timeout: the reclaim from a live holder is not modelled)
            /\ (hist'[1] = "tick") => \A p \in proc : Orphan(p[1]) \/ (now + 1) - p[2] <= Tmo
            \* (the time-to-live of a recurring message runs from its timestamp, which the replay uses as the anchor of the period grid)
            /\ (hist'[1] = "enqueue" /\ hist'[3] = "defer") => hist'[5] = 0
            /\ (hist'[1] = "requeue" /\ hist'[4] = "defer") => hist'[6] = 0
            /\ (PrefetchEnabled /\ ~Finishing) => hist'[1] \in {"prefetch", "prefetch_expired"}
=============================================================================
