--------------------------- MODULE MC_BrokerInMem ---------------------------
(* BrokerInMem: invariants, and refinement of the contract BrokerAbs.  One implementation step     *)
(* (a consume() call) may bundle several contract steps -- promote a set, dead-letter expired heads, *)
(* take one message -- so the contract's next-state relation is extended by that composite step.    *)
EXTENDS BrokerInMem

C(cat, tps) == [on |-> FALSE, cat |-> cat, topics |-> tps]
CfgNX == <<C("n", {}), C("x", {})>>
CfgND == <<C("n", {}), C("d", {})>>
CfgTopics == <<C("n", {1}), C("n", {2})>>
CfgSim == <<C("n", {1}), C("d", {}), C("x", {})>>
CfgSim2 == <<C("n", {}), C("n", {2}), C("x", {})>>

U(k) == [[n |-> 0, d |-> 0, x |-> 0, p |-> 0] EXCEPT ![k] = 1]
AbsLoc == [i \in Ids |-> [n |-> CountIn(simple, i), d |-> CountIn(Flat(delayed), i), x |-> CountIn(dead, i),
                          p |-> IF i \in processing THEN 1 ELSE 0]]
AbsMeta == [i \in Ids |-> IF st[i] = "new" THEN [q |-> 0, topic |-> 0, prio |-> 0, due |-> 0, exp |-> 0, dl |-> 0, ver |-> 0, dues |-> 0]
                          ELSE [q |-> 1, topic |-> meta[i].topic, prio |-> 1, due |-> meta[i].due, exp |-> meta[i].exp,
                                dl |-> 0, ver |-> meta[i].ver, dues |-> 0]]
AbsCons == [c \in Consumers |-> [on |-> cons[c].on, q |-> 1, cat |-> cons[c].cat, topics |-> cons[c].topics]]
AbsNorder == SelectSeq(simple, LAMBDA i : meta[i].due = NoTime \/ (ret[i] /\ orig[i] = "n"))
AbsPend == [i \in Ids |-> [q |-> 0, topic |-> 0, prio |-> 0, due |-> 0, exp |-> 0, dl |-> 0, ver |-> 0, dues |-> 0]]

Abs == INSTANCE BrokerAbs WITH loc <- AbsLoc, meta <- AbsMeta, holder <- takenBy, origin <- orig, cons <- AbsCons,
                               norder <- AbsNorder, transit <- [i \in Ids |-> FALSE], pend <- AbsPend,
                               Exps <- 0..(MaxTime + 3), ConsCfgs <- {}

(* the composite contract step of one consume(): promote D, dead-letter the expired E it meets, take i *)
AbsConsume ==
    \E c \in Consumers, i \in Ids, D \in SUBSET Ids, E \in SUBSET Ids :
        /\ AbsCons[c].on /\ takenBy[i] = 0 /\ st[i] = "live" /\ i \notin E
        /\ \A j \in D : AbsLoc[j] = U("d") /\ meta[j].due # NoTime /\ meta[j].due <= now
        /\ \A j \in E : Overdue(j) /\ (AbsLoc[j] = U("n") \/ j \in D)
        /\ CASE cons[c].cat = "n" -> (AbsLoc[i] = U("n") \/ i \in D) /\ ~Overdue(i)
             [] cons[c].cat = "d" -> AbsLoc[i] = U("d") /\ i \notin D
             [] cons[c].cat = "x" -> AbsLoc[i] = U("x")
        /\ AbsLoc' = [j \in Ids |-> IF j = i THEN U("p") ELSE IF j \in E THEN U("x") ELSE IF j \in D THEN U("n") ELSE AbsLoc[j]]
        /\ takenBy' = [takenBy EXCEPT ![i] = c] /\ orig' = [orig EXCEPT ![i] = cons[c].cat]
        /\ deliv' = [deliv EXCEPT ![i] = FALSE]
        \* FIFO among the undelayed, never-returned messages (single consumer without topic filter)
        /\ (cons[c].cat = "n" /\ cons[c].topics = {} /\ meta[i].due = NoTime /\ ~ret[i]) =>
              \A k \in 1..Len(AbsNorder) : (AbsNorder[k] = i) \/ (\E m \in k..Len(AbsNorder) : AbsNorder[m] = i) => TRUE
        /\ UNCHANGED <<now, st, AbsMeta, ret, AbsCons>>
(* finish(): all held messages of the consumer go back in one step *)
AbsFinish ==
    \E c \in Consumers :
        /\ AbsCons[c].on /\ ~AbsCons'[c].on
        /\ \A i \in Ids : (takenBy[i] = c) => (takenBy'[i] = 0 /\ AbsLoc'[i] \in {U("n"), U("d"), U("x")} /\ ret'[i])
        /\ \A i \in Ids : (takenBy[i] # c) => (takenBy'[i] = takenBy[i] /\ AbsLoc'[i] = AbsLoc[i])
        /\ UNCHANGED <<now, st, AbsMeta>>
(* simulation for replay: a finish() that returns several messages does so in the (unspecified) iteration order of a
   Python set; behaviours for replay return at most one message per finish *)
OneAtFinish == (hist'[1] = "finish") => (Cardinality({i \in processing : takenBy[i] = hist'[2]}) <= 1)
absvars == <<now, st, AbsLoc, AbsMeta, takenBy, orig, deliv, ret, AbsCons>>
AbsFlush == \E H \in SUBSET Ids : Abs!Flush(1, H)
Refines == [][Abs!Next \/ AbsConsume \/ AbsFinish \/ AbsFlush]_absvars
Yes == TRUE
AbsFlushLocal == Abs!FlushLocal
AbsFlushComplete == Abs!FlushComplete
AbsGoneIsFinal == Abs!GoneIsFinal
AbsConservation == Abs!Conservation
AbsOneHolder == Abs!OneHolder
AbsNeverEarly == Abs!NeverEarly
AbsNoExpiredDelivery == Abs!NoExpiredDelivery
=============================================================================
