------------------------------ MODULE Schedule ------------------------------
(***************************************************************************)
(* C19 (and the arithmetic used by C04/C06/C12): the default back-off, the *)
(* next execution time of a periodic job, and expiry, as TLA+ operators.   *)
(* TLC checks the algebraic properties for *every* input of a bounded      *)
(* domain (MC_Schedule), Apalache for unbounded integers (thorough tier),   *)
(* and the same operators are the oracle for the values returned by the    *)
(* real functions (Trace_Schedule: one recorded evaluation per case).      *)
(***************************************************************************)
EXTENDS Integers

Min(a, b) == IF a <= b THEN a ELSE b
Max(a, b) == IF a >= b THEN a ELSE b
Pow2(n) == 2 ^ n

(* default_retry_policy_factory(min, max, multiplier, max_exponent)(k), in seconds *)
Backoff(k, mn, mx, mult, maxexp) == Max(mn, Min(mult * Pow2(Min(k, maxexp)), mx))

(* compute_next_execution_time for defer_by = P: P * (floor((now - base) / P) + 1) after base  *)
(* (\div is floor division for a positive divisor, like Python's timedelta // timedelta)        *)
NextExec(base, now, P) == base + P * (((now - base) \div P) + 1)

(* with deferred_until: it wins while it is still ahead *)
NextExecUntil(base, now, P, until) == IF until > now THEN until ELSE NextExec(base, now, P)

Overdue(now, ts, ttl) == now > ts + ttl

(* ---- the properties ---- *)
Monotone(k, mn, mx, mult, maxexp) == Backoff(k, mn, mx, mult, maxexp) <= Backoff(k + 1, mn, mx, mult, maxexp)
InRange(k, mn, mx, mult, maxexp) == mn <= Backoff(k, mn, mx, mult, maxexp) /\ Backoff(k, mn, mx, mult, maxexp) <= mx
OnGrid(base, now, P) == (NextExec(base, now, P) - base) % P = 0
Window(base, now, P) == now < NextExec(base, now, P) /\ NextExec(base, now, P) <= now + P
UntilWins(base, now, P, until) == until > now => NextExecUntil(base, now, P, until) = until
=============================================================================
