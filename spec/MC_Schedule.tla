---- MODULE MC_Schedule ----
(* exhaustive check of the C19 properties over a bounded input domain *)
EXTENDS Schedule, TLC
VARIABLE c
Mins == {1, 2, 5, 10, 40}
BoCases == [t : {"bo"}, k : 1..12, mn : Mins, mx : Mins, mult : 1..6, maxexp : 1..8]
NeCases == [t : {"ne"}, base : 0..24, now : 0..24, P : 1..6, du : {0, 1, 2, 3, 4}]
Until(x) == CASE x.du = 0 -> -1000 [] x.du = 1 -> x.now - 1 [] x.du = 2 -> x.now [] x.du = 3 -> x.now + 1 [] x.du = 4 -> x.now + x.P + 2
Init == c \in {x \in BoCases : x.mn <= x.mx} \cup NeCases
Next == UNCHANGED c
Spec == Init /\ [][Next]_c
BoOk == c.t = "bo" => /\ Monotone(c.k, c.mn, c.mx, c.mult, c.maxexp)
                      /\ InRange(c.k, c.mn, c.mx, c.mult, c.maxexp)
NeOk == c.t = "ne" => /\ OnGrid(c.base, c.now, c.P)
                      /\ Window(c.base, c.now, c.P)
                      /\ UntilWins(c.base, c.now, c.P, Until(c))
                      /\ (Until(c) <= c.now => NextExecUntil(c.base, c.now, c.P, Until(c)) = NextExec(c.base, c.now, c.P))
OdOk == \A now \in 0..6, ts \in 0..6, ttl \in 0..3 : Overdue(now, ts, ttl) <=> (now - ts > ttl)
====
