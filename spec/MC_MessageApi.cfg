SPECIFICATION Spec
CONSTANT MaxLen = 4
INVARIANT OneTerminal
INVARIANT UsedIffLogged
INVARIANT StoreInOrder
PROPERTY AfterUse
