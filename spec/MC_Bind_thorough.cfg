SPECIFICATION Spec
CONSTANT N = 4
INVARIANT EachParam
INVARIANT ExtrasOnlyToCatchAll
INVARIANT MissingFails
INVARIANT EmptyRunsIfAllDefaults
INVARIANT DepsNeverFromPayload
POSTCONDITION PrintCount
