------------------------------- MODULE Router -------------------------------
(***************************************************************************)
(* C11, registration half: routers map actor names to (queue, function)    *)
(* and queues to the set of topics served there.  Registering a name again *)
(* replaces the actor (last registration wins); including a router adds    *)
(* exactly its actors and topics -- by value, routers never share state.   *)
(***************************************************************************)
EXTENDS Integers, FiniteSets, TLC
CONSTANTS Routers, Names, Queues, Fns

VARIABLES actors,  \* router -> [name -> <<queue, fn>>]  (partial: DOMAIN = registered names)
          tbq      \* router -> [queue -> set of names]  (partial: DOMAIN = queues with an entry)
vars == <<actors, tbq>>
Empty == [x \in {} |-> 0]
Init == actors = [r \in Routers |-> Empty] /\ tbq = [r \in Routers |-> Empty]

Get(f, k, d) == IF k \in DOMAIN f THEN f[k] ELSE d
Put(f, k, v) == [x \in DOMAIN f \cup {k} |-> IF x = k THEN v ELSE f[x]]

(* the stale topic entry of an overridden actor may be kept (as the code does) or removed -- but a *)
(* queue entry never becomes the empty set (an empty topic set means "no filter" to a consumer)    *)
Register(r, n, q, fn, keepstale) ==
    LET old == Get(actors[r], n, <<q, fn>>)
        t1 == IF keepstale \/ old[1] = q \/ n \notin DOMAIN actors[r] THEN tbq[r]
              ELSE IF tbq[r][old[1]] = {n} THEN [x \in DOMAIN tbq[r] \ {old[1]} |-> tbq[r][x]]
              ELSE Put(tbq[r], old[1], tbq[r][old[1]] \ {n})
    IN /\ actors' = [actors EXCEPT ![r] = Put(@, n, <<q, fn>>)]
       /\ tbq' = [tbq EXCEPT ![r] = Put(t1, q, Get(t1, q, {}) \cup {n})]

Include(dst, src) ==
    /\ dst # src
    /\ actors' = [actors EXCEPT ![dst] = [x \in DOMAIN @ \cup DOMAIN actors[src] |->
                                            IF x \in DOMAIN actors[src] THEN actors[src][x] ELSE @[x]]]
    /\ tbq' = [tbq EXCEPT ![dst] = [x \in DOMAIN @ \cup DOMAIN tbq[src] |-> Get(@, x, {}) \cup Get(tbq[src], x, {})]]

Next == \/ \E r \in Routers, n \in Names, q \in Queues, f \in Fns, k \in BOOLEAN : Register(r, n, q, f, k)
        \/ \E a, b \in Routers : Include(a, b)
Spec == Init /\ [][Next]_vars

NoEmptyFilter == \A r \in Routers : \A q \in DOMAIN tbq[r] : tbq[r][q] # {}
ActorReachable == \A r \in Routers : \A n \in DOMAIN actors[r] :
                     actors[r][n][1] \in DOMAIN tbq[r] /\ n \in tbq[r][actors[r][n][1]]
TopicsAreActors == \A r \in Routers : \A q \in DOMAIN tbq[r] : tbq[r][q] \subseteq DOMAIN actors[r]
(* including changes nothing but the destination *)
IncludeIsByValue == [][\A a, b \in Routers : (a # b /\ actors'[b] # actors[b] /\ tbq'[a] # tbq[a]) => FALSE]_vars
=============================================================================
