SPECIFICATION Spec
CONSTANT N = 4
INVARIANT FailsIffReachableFailing
INVARIANT OverrideIsLocal
INVARIANT OverrideEverywhere
