---- MODULE Trace_MessageApi ----
EXTENDS MessageApi, Json, IOUtils, TLCExt
Traces == JsonDeserialize(IOEnv.TRACE_FILE)
VARIABLES tid, l, isdep
Ev == Traces[tid][l]
Is(k) == l <= Len(Traces[tid]) /\ Ev.e = k
Step == l' = l + 1 /\ UNCHANGED tid
TInit == /\ tid \in 1..Len(Traces) /\ l = 2 /\ TLCSet(tid, 1)
         /\ LET h == Traces[tid][1] IN
            /\ cat = h.cat /\ tried = h.tried /\ max = h.max /\ resOn = h.resOn /\ isdep = h.dep
         /\ ro = FALSE /\ log = <<>> /\ cbs = <<>> /\ spos = 0 /\ order = <<>> /\ stopped = FALSE /\ n = 0
TOp == /\ Is("op") /\ Step /\ UNCHANGED <<n, isdep>>
       /\ IF Ev.bfail THEN ~Ev.raised /\ CallFailing(Ev.o, Ev.calls) ELSE Call(Ev.o, isdep, Ev.raised, Ev.calls)
TCb == /\ Is("cb") /\ Step /\ AddCallback(Ev.tok) /\ UNCHANGED <<n, isdep>>
TEnd == /\ Is("end") /\ Step
        /\ Ev.ran = order            \* callbacks (and the result store) that ran, in order
        /\ Ev.cont = ~stopped        \* the marker after the calls was reached iff no eager response
        /\ Ev.calls = log            \* all broker calls of the handle
        /\ Ev.ro = ro
        /\ UNCHANGED <<vars, n, isdep>>
TNext == TOp \/ TCb \/ TEnd
TSpec == TInit /\ [][TNext]_<<vars, n, tid, l, isdep>>
Progress == TLCSet(tid, IF TLCGet(tid) < l THEN l ELSE TLCGet(tid))
Accepted == {t \in 1..Len(Traces) : TLCGet(t) # Len(Traces[t]) + 1 /\ PrintT(<<"REJECT", t, TLCGet(t)>>)} = {} \/ TRUE
====
