----------------------------- MODULE BrokerRabbit -----------------------------
(***************************************************************************)
(* Implementation-shaped specification of the RabbitMQ broker              *)
(* (package repid.connections.rabbitmq) together with the part of the AMQP *)
(* server it relies on, one repid queue = three AMQP queues:               *)
(*   qn   <queue>            FIFO; dead-letters (nack, requeue=False) to qx *)
(*   qd   <queue>:delayed    FIFO of <<id, expiration instant>>; a message  *)
(*                           expires ONLY AT THE HEAD and is then           *)
(*                           dead-lettered to qn                            *)
(*   qx   <queue>:dead       FIFO, no dead-letter exchange                  *)
(*   unacked                 deliveries [tag, c, src, id, exp] not settled  *)
(* Client side, as in the code:                                            *)
(*   tagmap   broker._id_to_delivery_tag : message id -> delivery tag,     *)
(*            ONE map per broker object, shared by all of its consumers    *)
(*   delivd   consumer._delivered        : id -> tag of its deliveries     *)
(*   local    consumer.queue (asyncio.Queue the callback fills)            *)
(*   cbs      on_new_message tasks the client library has started:         *)
(*            stage "new" (not run yet) or "sleep" (decided to give the    *)
(*            delivery back, sleeping 0.1 s before basic_reject)           *)
(* Granularity: one step per server operation / per callback stage / per   *)
(* public call; requeue() is its two round trips (basic_ack, then          *)
(* basic_publish), finish() is flag + basic_cancel + the gathered rejects. *)
(*                                                                         *)
(* Used three ways: TLC checks its invariants; TLC checks that it REFINES  *)
(* the contract BrokerAbs (MC_BrokerRabbit) -- and shows where it does not *)
(* (the recorded known findings); recorded executions of the real broker   *)
(* on the fake AMQP server, projected to these variables after every       *)
(* event-loop step, must be behaviours of this module (Trace_BrokerRabbit). *)
(***************************************************************************)
EXTENDS Integers, Sequences, FiniteSets, SequencesExt, TLC

CONSTANTS Ids, Consumers, Topics, MaxTime, Dues, Ttls, ConsCfg, MaxTag
(* switches: the pinned code, or a variant (TLC shows what each one buys)                           *)
ExpiryAtHandover == FALSE   \* TRUE: consume() re-checks the time-to-live when it hands a message over
AtomicRequeue == FALSE      \* TRUE: requeue() replaces the message in one step (no gap without the message)
WithCancel == FALSE         \* TRUE: callers can be cancelled between the two round trips of requeue()

NoTime == 0
VARIABLES now, qn, qd, qx, unacked, cbs, tagmap, delivd, local, cons, ntag, meta, st,
          heldc,                       \* id -> consumer whose consume() returned it and who has not settled it
          transit, pend,               \* requeue() between its two round trips: acknowledged, not yet published
          deliv, orig, ret, norder,    \* ghosts for the refinement mapping (as in BrokerAbs)
          hist                         \* last action
vars == <<now, qn, qd, qx, unacked, cbs, tagmap, delivd, local, cons, ntag, meta, st, heldc, transit, pend,
          deliv, orig, ret, norder, hist>>

Meta0 == [topic |-> 0, due |-> NoTime, exp |-> NoTime, ver |-> 0]
Overdue(i) == meta[i].exp # NoTime /\ now > meta[i].exp
Rm(s, i) == SelectSeq(s, LAMBDA y : y # i)
Ids1(s) == [k \in 1..Len(s) |-> s[k][1]]          \* the ids of qd
UnackedOf(c) == {u \in unacked : u.c = c}
TagRec(t) == {u \in unacked : u.tag = t}

Init == /\ now = 1 /\ qn = <<>> /\ qd = <<>> /\ qx = <<>> /\ unacked = {} /\ cbs = {}
        /\ tagmap = [i \in Ids |-> 0] /\ delivd = [c \in Consumers |-> [i \in Ids |-> 0]]
        /\ local = [c \in Consumers |-> <<>>] /\ cons = ConsCfg /\ ntag = 0
        /\ meta = [i \in Ids |-> Meta0] /\ st = [i \in Ids |-> "new"] /\ heldc = [i \in Ids |-> 0]
        /\ transit = [i \in Ids |-> FALSE] /\ pend = [i \in Ids |-> Meta0]
        /\ deliv = [i \in Ids |-> FALSE] /\ orig = [i \in Ids |-> "n"] /\ ret = [i \in Ids |-> FALSE]
        /\ norder = <<>> /\ hist = <<"init">>

(* ---- the server ------------------------------------------------------------------------------ *)
(* per-message TTL: only the head of qd is looked at; the server does this before anything else    *)
HeadExpired == qd # <<>> /\ Head(qd)[2] <= now
ServerExpire ==
    /\ HeadExpired
    /\ qd' = Tail(qd) /\ qn' = Append(qn, Head(qd)[1])
    /\ hist' = <<"expire", Head(qd)[1]>>
    /\ UNCHANGED <<now, qx, unacked, cbs, tagmap, delivd, local, cons, ntag, meta, st, heldc, transit, pend, deliv, orig, ret, norder>>

Tick == /\ ~HeadExpired /\ now < MaxTime /\ now' = now + 1 /\ hist' = <<"tick">>
        /\ UNCHANGED <<qn, qd, qx, unacked, cbs, tagmap, delivd, local, cons, ntag, meta, st, heldc, transit, pend, deliv, orig, ret, norder>>

Room(c) == cons[c].pf = 0 \/ Cardinality(UnackedOf(c)) < cons[c].pf
(* basic.deliver: the head of the consumer's AMQP queue becomes an unacknowledged delivery with a fresh tag *)
ServerDeliver(c) ==
    /\ ~HeadExpired /\ cons[c].reg /\ Room(c) /\ ntag < MaxTag
    /\ LET cat == cons[c].cat
           src == IF cat = "n" THEN qn ELSE IF cat = "x" THEN qx ELSE Ids1(qd) IN
       /\ src # <<>>
       /\ LET i == Head(src)
              e == IF cat = "d" THEN Head(qd)[2] ELSE NoTime IN
          /\ ntag' = ntag + 1
          /\ unacked' = unacked \cup {[tag |-> ntag + 1, c |-> c, src |-> cat, id |-> i, exp |-> e]}
          /\ cbs' = cbs \cup {[tag |-> ntag + 1, c |-> c, id |-> i, stage |-> "new"]}
          /\ CASE cat = "n" -> qn' = Tail(qn) /\ UNCHANGED <<qd, qx>>
               [] cat = "d" -> qd' = Tail(qd) /\ UNCHANGED <<qn, qx>>
               [] cat = "x" -> qx' = Tail(qx) /\ UNCHANGED <<qn, qd>>
          /\ orig' = [orig EXCEPT ![i] = cat] /\ deliv' = [deliv EXCEPT ![i] = FALSE]
          /\ norder' = Rm(norder, i)
          /\ hist' = <<"deliver", c, i, ntag + 1>>
    /\ UNCHANGED <<now, tagmap, delivd, local, cons, meta, st, heldc, transit, pend, ret>>

(* basic.reject / basic.nack with requeue=True: back to the FRONT of the queue it was delivered from *)
ToFront(u) == CASE u.src = "n" -> qn' = <<u.id>> \o qn /\ UNCHANGED <<qd, qx>>
              [] u.src = "d" -> qd' = <<<<u.id, u.exp>>>> \o qd /\ UNCHANGED <<qn, qx>>
              [] u.src = "x" -> qx' = <<u.id>> \o qx /\ UNCHANGED <<qn, qd>>
NorderBack(u) == IF u.src = "n" THEN Append(Rm(norder, u.id), u.id) ELSE norder

(* ---- the client library's callback on_new_message --------------------------------------------- *)
GivesBack(c, i) == cons[c].paused \/ ~cons[c].on \/ (cons[c].topics # {} /\ meta[i].topic \notin cons[c].topics)
Callback(r) ==
    /\ r \in cbs /\ r.stage = "new"
    /\ LET c == r.c    i == r.id IN
       IF GivesBack(c, i)
       THEN /\ cbs' = (cbs \ {r}) \cup {[r EXCEPT !.stage = "sleep"]}
            /\ hist' = <<"cb_sleep", c, i, r.tag>>
            /\ UNCHANGED <<qn, qd, qx, unacked, tagmap, delivd, local, ret, norder>>
       ELSE IF Overdue(i) /\ cons[c].cat = "n"
       THEN \* basic_nack(requeue=False): dead-lettered through qn's dead-letter exchange
            /\ cbs' = cbs \ {r} /\ unacked' = unacked \ TagRec(r.tag)
            /\ qx' = Append(qx, i)
            /\ hist' = <<"cb_expired", c, i, r.tag>>
            /\ UNCHANGED <<qn, qd, tagmap, delivd, local, ret, norder>>
       ELSE /\ cbs' = cbs \ {r}
            /\ tagmap' = [tagmap EXCEPT ![i] = r.tag]
            /\ delivd' = [delivd EXCEPT ![c] = [j \in Ids |-> IF j = i THEN r.tag
                                                            ELSE IF delivd[c][j] # 0 /\ tagmap'[j] = delivd[c][j] THEN delivd[c][j] ELSE 0]]
            /\ local' = [local EXCEPT ![c] = Append(@, i)]
            /\ hist' = <<"cb_queue", c, i, r.tag>>
            /\ UNCHANGED <<qn, qd, qx, unacked, ret, norder>>
    /\ UNCHANGED <<now, cons, ntag, meta, st, heldc, transit, pend, deliv, orig>>

CallbackReject(r) ==
    /\ r \in cbs /\ r.stage = "sleep" /\ ~HeadExpired
    /\ cbs' = cbs \ {r}
    /\ \E u \in TagRec(r.tag) :
         /\ unacked' = unacked \ {u} /\ ToFront(u)
         /\ norder' = NorderBack(u) /\ ret' = [ret EXCEPT ![u.id] = TRUE]
    /\ hist' = <<"cb_reject", r.c, r.id>>
    /\ UNCHANGED <<now, tagmap, delivd, local, cons, ntag, meta, st, heldc, transit, pend, deliv, orig>>

(* ---- public calls ---------------------------------------------------------------------------- *)
Enqueue(i, t, due, ttl) ==
    /\ st[i] = "new" /\ ~HeadExpired
    /\ st' = [st EXCEPT ![i] = "live"]
    /\ meta' = [meta EXCEPT ![i] = [topic |-> t, due |-> due, exp |-> IF ttl = NoTime THEN NoTime ELSE now + ttl, ver |-> 1]]
    /\ IF due # NoTime /\ due > now     \* millis > 0: published to <queue>:delayed with expiration = the remaining time
       THEN qd' = Append(qd, <<i, due>>) /\ UNCHANGED <<qn, norder>>
       ELSE qn' = Append(qn, i) /\ qd' = qd /\ norder' = IF due = NoTime THEN Append(norder, i) ELSE norder
    /\ hist' = <<"enqueue", i, t, due, ttl>>
    /\ UNCHANGED <<now, qx, unacked, cbs, tagmap, delivd, local, cons, ntag, heldc, transit, pend, deliv, orig, ret>>

Start(c) == /\ ~cons[c].on /\ ~cons[c].reg /\ ~cons[c].fin
            /\ cons' = [cons EXCEPT ![c].on = TRUE, ![c].reg = TRUE] /\ hist' = <<"start", c>>
            /\ UNCHANGED <<now, qn, qd, qx, unacked, cbs, tagmap, delivd, local, ntag, meta, st, heldc, transit, pend, deliv, orig, ret, norder>>
Pause(c) == /\ cons[c].on /\ cons' = [cons EXCEPT ![c].paused = ~@] /\ hist' = <<"pause", c>>
            /\ UNCHANGED <<now, qn, qd, qx, unacked, cbs, tagmap, delivd, local, ntag, meta, st, heldc, transit, pend, deliv, orig, ret, norder>>

(* consume(): the head of the local queue (a waiting consume() is not a step) *)
Consume(c) ==
    /\ local[c] # <<>>
    /\ LET i == Head(local[c]) IN
       /\ (ExpiryAtHandover /\ cons[c].cat = "n") => ~Overdue(i)
       /\ local' = [local EXCEPT ![c] = Tail(@)]
       /\ heldc' = [heldc EXCEPT ![i] = c] /\ deliv' = [deliv EXCEPT ![i] = TRUE]
       /\ hist' = <<"consume", c, i>>
    /\ UNCHANGED <<now, qn, qd, qx, unacked, cbs, tagmap, delivd, cons, ntag, meta, st, transit, pend, orig, ret, norder>>
(* (variant) an expired head of the local queue is dead-lettered by consume() instead *)
ConsumeExpired(c) ==
    /\ ExpiryAtHandover /\ cons[c].cat = "n" /\ local[c] # <<>> /\ Overdue(Head(local[c]))
    /\ LET i == Head(local[c]) IN
       /\ local' = [local EXCEPT ![c] = Tail(@)]
       /\ unacked' = unacked \ TagRec(tagmap[i]) /\ tagmap' = [tagmap EXCEPT ![i] = 0]
       /\ qx' = Append(qx, i) /\ hist' = <<"consume_expired", c, i>>
    /\ UNCHANGED <<now, qn, qd, cbs, delivd, cons, ntag, meta, st, heldc, transit, pend, deliv, orig, ret, norder>>

Mine(c, i) == heldc[i] = c /\ ~transit[i]
(* ack / nack / reject pop the tag from the shared map; an unknown id is logged and ignored *)
Settle(c, i, how) ==
    /\ Mine(c, i) /\ ~HeadExpired
    /\ heldc' = [heldc EXCEPT ![i] = 0] /\ tagmap' = [tagmap EXCEPT ![i] = 0]
    /\ LET U == TagRec(tagmap[i]) IN
       /\ unacked' = unacked \ U
       /\ CASE how = "ack" -> /\ st' = [st EXCEPT ![i] = IF U # {} THEN "acked" ELSE @]
                              /\ UNCHANGED <<qn, qd, qx, ret, norder>>
            [] how = "nack" -> /\ IF U # {} THEN qx' = Append(qx, i) ELSE qx' = qx     \* (normal-category deliveries only)
                               /\ UNCHANGED <<qn, qd, st, ret, norder>>
            [] how = "reject" -> /\ IF U = {} THEN UNCHANGED <<qn, qd, qx, ret, norder>>
                                    ELSE \E u \in U : ToFront(u) /\ norder' = NorderBack(u) /\ ret' = [ret EXCEPT ![i] = TRUE]
                                 /\ st' = st
    /\ hist' = <<how, c, i>>
    /\ UNCHANGED <<now, cbs, delivd, local, cons, ntag, meta, transit, pend, deliv, orig>>
Ack(c, i) == Settle(c, i, "ack")
Nack(c, i) == cons[c].cat = "n" /\ Settle(c, i, "nack")
Reject(c, i) == Settle(c, i, "reject")

NewMeta(i, due, ttl) == [meta[i] EXCEPT !.due = due, !.exp = IF ttl = NoTime THEN NoTime ELSE now + ttl, !.ver = 2]
Publish(i, m) ==
    IF m.due # NoTime /\ m.due > now
    THEN qd' = Append(qd, <<i, m.due>>) /\ UNCHANGED <<qn, norder>>
    ELSE qn' = Append(qn, i) /\ qd' = qd /\ norder' = IF m.due = NoTime THEN Append(Rm(norder, i), i) ELSE norder
(* requeue(): basic_ack of the old delivery ... *)
RequeueAck(c, i, due, ttl) ==
    /\ ~AtomicRequeue /\ Mine(c, i) /\ ~HeadExpired
    /\ tagmap' = [tagmap EXCEPT ![i] = 0] /\ unacked' = unacked \ TagRec(tagmap[i])
    /\ transit' = [transit EXCEPT ![i] = TRUE] /\ pend' = [pend EXCEPT ![i] = NewMeta(i, due, ttl)]
    /\ hist' = <<"requeue_ack", c, i, due, ttl>>
    /\ UNCHANGED <<now, qn, qd, qx, cbs, delivd, local, cons, ntag, meta, st, heldc, deliv, orig, ret, norder>>
(* ... then basic_publish of the new message *)
RequeuePublish(i) ==
    /\ transit[i] /\ ~HeadExpired
    /\ meta' = [meta EXCEPT ![i] = pend[i]] /\ Publish(i, pend[i])
    /\ transit' = [transit EXCEPT ![i] = FALSE] /\ heldc' = [heldc EXCEPT ![i] = 0]
    /\ ret' = [ret EXCEPT ![i] = TRUE]
    /\ hist' = <<"requeue_publish", i>>
    /\ UNCHANGED <<now, qx, unacked, cbs, tagmap, delivd, local, cons, ntag, st, pend, deliv, orig>>
(* the caller of requeue() is cancelled between the two round trips (a worker forced to stop while it re-queues a retry): *)
(* the old delivery is acknowledged, the new message is never published -- finding rabbit-requeue-gap                      *)
CancelInTransit(i) ==
    /\ WithCancel /\ transit[i]
    /\ transit' = [transit EXCEPT ![i] = FALSE] /\ heldc' = [heldc EXCEPT ![i] = 0]
    /\ hist' = <<"requeue_cancelled", i>>
    /\ UNCHANGED <<now, qn, qd, qx, unacked, cbs, tagmap, delivd, local, cons, ntag, meta, st, pend, deliv, orig, ret, norder>>
(* (variant) both in one step *)
RequeueAtomic(c, i, due, ttl) ==
    /\ AtomicRequeue /\ Mine(c, i) /\ ~HeadExpired
    /\ tagmap' = [tagmap EXCEPT ![i] = 0] /\ unacked' = unacked \ TagRec(tagmap[i])
    /\ meta' = [meta EXCEPT ![i] = NewMeta(i, due, ttl)] /\ Publish(i, NewMeta(i, due, ttl))
    /\ heldc' = [heldc EXCEPT ![i] = 0] /\ ret' = [ret EXCEPT ![i] = TRUE]
    /\ hist' = <<"requeue", c, i, due, ttl>>
    /\ UNCHANGED <<now, qx, cbs, delivd, local, cons, ntag, st, transit, pend, deliv, orig>>

(* finish(): __is_consuming = False; basic_cancel; then every delivery still in the local queue and every unsettled  *)
(* delivery of this consumer (its _delivered entries whose tag is still the one in the shared map) is rejected.      *)
FinishFlag(c) == /\ cons[c].on /\ cons' = [cons EXCEPT ![c].on = FALSE] /\ hist' = <<"finish_flag", c>>
                 /\ UNCHANGED <<now, qn, qd, qx, unacked, cbs, tagmap, delivd, local, ntag, meta, st, heldc, transit, pend, deliv, orig, ret, norder>>
FinishCancel(c) == /\ ~cons[c].on /\ cons[c].reg /\ cons' = [cons EXCEPT ![c].reg = FALSE, ![c].fin = TRUE] /\ hist' = <<"finish_cancel", c>>
                   /\ UNCHANGED <<now, qn, qd, qx, unacked, cbs, tagmap, delivd, local, ntag, meta, st, heldc, transit, pend, deliv, orig, ret, norder>>
RECURSIVE PutFront(_, _)     \* the gathered basic_rejects arrive in the order they were issued; each goes to the front
PutFront(q, s) == IF s = <<>> THEN q ELSE PutFront(<<Head(s)>> \o q, Tail(s))
FinishReject(c) ==
    /\ cons[c].fin /\ ~HeadExpired
    /\ LET L == {i \in Ids : \E k \in 1..Len(local[c]) : local[c][k] = i}
           D == {i \in Ids : delivd[c][i] # 0 /\ tagmap[i] = delivd[c][i]}
           R == {i \in L \cup D : tagmap[i] # 0}            \* (an id without a tag is logged and skipped)
           U == {u \in unacked : u.id \in R /\ u.tag = tagmap[u.id]} IN
       /\ tagmap' = [i \in Ids |-> IF i \in R THEN 0 ELSE tagmap[i]]
       /\ unacked' = unacked \ U
       /\ \E s \in SetToSeqs({u.id : u \in U}) :       \* (local queue first, in its order; then the other _delivered entries)
            /\ LET lq == SelectSeq(local[c], LAMBDA y : \E u \in U : u.id = y) IN SubSeq(s, 1, Len(lq)) = lq
            /\ CASE cons[c].cat = "n" -> qn' = PutFront(qn, s) /\ UNCHANGED <<qd, qx>>
                 [] cons[c].cat = "x" -> qx' = PutFront(qx, s) /\ UNCHANGED <<qn, qd>>
                 [] cons[c].cat = "d" -> /\ qd' = PutFront(qd, [k \in 1..Len(s) |-> <<s[k], (CHOOSE u \in U : u.id = s[k]).exp>>])
                                         /\ UNCHANGED <<qn, qx>>
            /\ norder' = IF cons[c].cat = "n" THEN SelectSeq(norder, LAMBDA y : y \notin {u.id : u \in U}) \o s ELSE norder
       /\ ret' = [i \in Ids |-> ret[i] \/ \E u \in U : u.id = i]
       /\ heldc' = [i \in Ids |-> IF \E u \in U : u.id = i THEN 0 ELSE heldc[i]]
       /\ local' = [local EXCEPT ![c] = <<>>] /\ delivd' = [delivd EXCEPT ![c] = [i \in Ids |-> 0]]
       /\ cons' = [cons EXCEPT ![c].fin = FALSE]
    /\ hist' = <<"finish_reject", c>>
    /\ UNCHANGED <<now, cbs, ntag, meta, st, transit, pend, deliv, orig>>

Next == \/ Tick \/ ServerExpire
        \/ \E c \in Consumers : ServerDeliver(c) \/ Start(c) \/ Pause(c) \/ Consume(c) \/ ConsumeExpired(c)
                                 \/ FinishFlag(c) \/ FinishCancel(c) \/ FinishReject(c)
        \/ \E r \in cbs : Callback(r) \/ CallbackReject(r)
        \/ \E i \in Ids, t \in Topics, due \in Dues, ttl \in Ttls : Enqueue(i, t, due, ttl)
        \/ \E c \in Consumers, i \in Ids : Ack(c, i) \/ Nack(c, i) \/ Reject(c, i)
              \/ \E due \in Dues, ttl \in Ttls : RequeueAck(c, i, due, ttl) \/ RequeueAtomic(c, i, due, ttl)
        \/ \E i \in Ids : RequeuePublish(i) \/ CancelInTransit(i)
Spec == Init /\ [][Next]_vars

-----------------------------------------------------------------------------
CountIn(s, i) == Cardinality({k \in 1..Len(s) : s[k] = i})
CountU(i) == Cardinality({u \in unacked : u.id = i})
Count(i) == CountIn(qn, i) + CountIn(Ids1(qd), i) + CountIn(qx, i) + CountU(i)
(* every live message is in exactly one place, except between the two round trips of requeue() *)
Conservation == \A i \in Ids : Count(i) = (IF st[i] = "live" /\ ~transit[i] THEN 1 ELSE 0)
(* the shared id -> tag map never points at a delivery of another message, and a message in a consumer's hands has a tag *)
TagmapSound == \A i \in Ids : tagmap[i] # 0 => \A u \in unacked : u.tag = tagmap[i] => u.id = i
HeldHasTag == \A i \in Ids : (heldc[i] # 0 /\ ~transit[i]) => (tagmap[i] # 0 /\ \E u \in unacked : u.tag = tagmap[i] /\ u.id = i)
LocalHasTag == \A c \in Consumers : \A k \in 1..Len(local[c]) : \E u \in unacked : u.id = local[c][k] /\ u.tag = tagmap[u.id] /\ u.c = c
(* a delivery is in exactly one stage: callback pending, in the local queue, or in the client's hands *)
OneStage == \A u \in unacked :
              Cardinality({r \in cbs : r.tag = u.tag}) + Cardinality({c \in Consumers : CountIn(local[c], u.id) > 0})
                 + (IF heldc[u.id] # 0 /\ ~transit[u.id] THEN 1 ELSE 0) = 1
PrefetchBound == \A c \in Consumers : cons[c].pf # 0 => Cardinality(UnackedOf(c)) <= cons[c].pf
(* after finish() has completed, the consumer holds nothing any more *)
FinishedHoldsNothing == \A c \in Consumers : (~cons[c].on /\ ~cons[c].reg /\ ~cons[c].fin) =>
                            (local[c] = <<>> /\ \A u \in UnackedOf(c) : \E r \in cbs : r.tag = u.tag)
=============================================================================
