---- MODULE Trace_Deps ----
EXTENDS Deps, Json, IOUtils, TLC, TLCExt
Traces == JsonDeserialize(IOEnv.TRACE_FILE)
VARIABLES tid, l
Ev == Traces[tid][l]
Init == tid \in 1..Len(Traces) /\ l = 1 /\ TLCSet(tid, 1)
G(e) == [n \in 1..Len(e.g) |-> [tag |-> e.g[n].tag, kids |-> e.g[n].kids, failing |-> e.g[n].failing]]
Ok(e) == IF "decl" \in DOMAIN e
         THEN e.accepted = DeclSupported(e.decl, e.actor)          \* a declaration: accepted iff supported
         ELSE LET x == Expected(Apply(G(e), e.ovs), e.deps) IN
              /\ x.fail = e.got.fail
              /\ ~x.fail => x.vals = e.got.vals
              /\ FailureIsUnanswered(e.got.fail, e.got.reported)
Next == l <= Len(Traces[tid]) /\ Ok(Ev) /\ l' = l + 1 /\ UNCHANGED tid
Spec == Init /\ [][Next]_<<tid, l>>
Progress == TLCSet(tid, IF TLCGet(tid) < l THEN l ELSE TLCGet(tid))
Accepted == {t \in 1..Len(Traces) : TLCGet(t) # Len(Traces[t]) + 1 /\ PrintT(<<"REJECT", t, TLCGet(t)>>)} = {} \/ TRUE
====
