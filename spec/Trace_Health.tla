---- MODULE Trace_Health ----
EXTENDS Health, Json, IOUtils, TLCExt, Sequences
Traces == JsonDeserialize(IOEnv.TRACE_FILE)
VARIABLES tid, l
Ev == Traces[tid][l]
Is(k) == l <= Len(Traces[tid]) /\ Ev.e = k
Step == l' = l + 1 /\ UNCHANGED tid
TInit == Init /\ tid \in 1..Len(Traces) /\ l = 1 /\ TLCSet(tid, 1)
TRunStart == Is("run_start") /\ Step /\ RunStart /\ Ev.serving = TRUE
\* (the worker's run ends by returning: an exception out of Worker.run() -- whatever a consumer's failure said -- is not an end of it)
TRunEnd == Is("run_end") /\ Step /\ RunEnd /\ Ev.serving = FALSE /\ ~Ev.raised
TFail == Is("fail") /\ Step /\ ConsumerFails
TConn == Is("conn") /\ Step /\ Connect(Ev.c)
TRecv == Is("recv") /\ Step /\ Receive(Ev.c, Ev.cls, Ev.code)
               /\ Ev.serving = open                  \* the server is still up (or down) as before
               /\ Ev.wellformed                      \* a response, if any, is a well-formed HTTP response for that code
(* observation of the listening state at any time *)
TProbe == Is("probe") /\ Step /\ Ev.serving = open /\ UNCHANGED vars
(* message processing undisturbed: the jobs of the scenario completed as in the run without traffic *)
TJobs == Is("jobs") /\ Step /\ Ev.done = Ev.expected /\ UNCHANGED vars
TNext == TRunStart \/ TRunEnd \/ TFail \/ TConn \/ TRecv \/ TProbe \/ TJobs
TSpec == TInit /\ [][TNext]_<<vars, tid, l>>
Progress == TLCSet(tid, IF TLCGet(tid) < l THEN l ELSE TLCGet(tid))
Accepted == {t \in 1..Len(Traces) : TLCGet(t) # Len(Traces[t]) + 1 /\ PrintT(<<"REJECT", t, TLCGet(t)>>)} = {} \/ TRUE
====
