SPECIFICATION Spec
CONSTANTS
  Ids = {1, 2}
  Consumers = {1}
  Topics = {1}
  MaxTime = 3
  Dues = {0, 2}
  Ttls = {0}
  MaxTag = 3
  ConsCfg <- CfgN1
  WithCancel <- TrueC

VIEW NoHist
INVARIANT Conservation
INVARIANT TagmapSound
INVARIANT HeldHasTag
INVARIANT LocalHasTag
INVARIANT OneStage
INVARIANT PrefetchBound
INVARIANT FinishedHoldsNothing
INVARIANT AbsConservation
INVARIANT AbsOneHolder
INVARIANT AbsNorderSound
INVARIANT DueIsVisible
PROPERTY RefinesButTtl
PROPERTY AbsNeverEarly
PROPERTY AbsNotDroppedWhileLive
PROPERTY AbsAckRemoves
