SPECIFICATION Spec
CONSTANTS
  WaitCancelled <- TrueC
  Msgs = {1, 2, 3, 4}
  NQ = 2
  TL = 2
  ML = 3
  MaxRetries = 0
  Late = FALSE
  Repaired = TRUE
  BudgetCheck = "after_slot"
  Prefetch = 0
  FinishMode = "taken"
INVARIANT Conservation
INVARIANT SlotsSound
INVARIANT RunningBound
INVARIANT StartedBound
INVARIANT AtReturn
INVARIANT TriedBound
INVARIANT OwnQueue
CONSTRAINT Bounded
