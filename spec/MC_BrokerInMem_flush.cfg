SPECIFICATION Spec
CONSTANTS
  Ids = {1, 2}
  Consumers = {1, 2}
  Topics = {1}
  MaxTime = 2
  Dues = {0, 1}
  Ttls = {0, 2}
  ConsCfg <- CfgNX
  WithFlush <- Yes
INVARIANT Conservation
INVARIANT TakenIffProcessing
INVARIANT NoEmptyBucket
INVARIANT AbsConservation
INVARIANT AbsOneHolder
PROPERTY Refines
PROPERTY AbsNeverEarly
PROPERTY AbsNoExpiredDelivery
PROPERTY AbsFlushLocal
PROPERTY AbsFlushComplete
PROPERTY AbsGoneIsFinal
