-------------------------------- MODULE Deps --------------------------------
(***************************************************************************)
(* C18: dependency resolution.  A dependency graph is a function from node *)
(* ids to [tag, kids, failing]: `tag` names the provider currently bound   *)
(* to the node (an override rebinds tag and kids), `kids` the sequence of  *)
(* nodes its parameters depend on.  The value a parameter depending on     *)
(* node n must receive is the term  <<tag(n), <<Value(kid_1), ...>>>>, i.e. *)
(* what the provider returns when called with its own resolved             *)
(* sub-dependencies; resolution fails iff a reachable provider fails.      *)
(***************************************************************************)
EXTENDS Integers, Sequences, FiniteSets

RECURSIVE Value(_, _), Fails(_, _), Reach(_, _)
Value(g, n) == <<g[n].tag, [k \in 1..Len(g[n].kids) |-> Value(g, g[n].kids[k])]>>
Fails(g, n) == g[n].failing \/ \E k \in 1..Len(g[n].kids) : Fails(g, g[n].kids[k])
Reach(g, n) == {n} \cup UNION {Reach(g, g[n].kids[k]) : k \in 1..Len(g[n].kids)}

(* an override rebinds node n to provider `tag` with sub-dependencies `kids`, from then on, everywhere *)
Override(g, n, tag, kids) == [g EXCEPT ![n] = [tag |-> tag, kids |-> kids, failing |-> FALSE]]

RECURSIVE Apply(_, _)
Apply(g, ovs) == IF ovs = <<>> THEN g
                 ELSE Apply(Override(g, ovs[1].n, ovs[1].tag, ovs[1].kids), Tail(ovs))

(* what the actor must see for its dependency parameters `deps` (a sequence of nodes) *)
Expected(g, deps) ==
    IF \E k \in 1..Len(deps) : Fails(g, deps[k]) THEN [fail |-> TRUE, vals |-> <<>>]
    ELSE [fail |-> FALSE, vals |-> [k \in 1..Len(deps) |-> Value(g, deps[k])]]
(* A failing provider makes the execution a failed one that the worker still has to answer (retry / dead letter): *)
(* it is never reported as `already answered'.                                                                   *)
FailureIsUnanswered(fail, reported) == fail => ~reported

(* Declarations (providers given to Depends / override, and actors): a parameter is either a dependency           *)
(* (positional-or-keyword or keyword-only) or, for a provider, something with a default value; a dependency in a   *)
(* positional-only, *args or **kwargs parameter is refused whether or not it has a default, and so is a provider    *)
(* parameter that is neither a dependency nor defaulted.                                                            *)
ParamSupported(p, isActor) ==
    IF p.dep THEN p.kind \in {"pk", "kw"}
    ELSE isActor \/ p.hasdefault
DeclSupported(params, isActor) == \A k \in 1..Len(params) : ParamSupported(params[k], isActor)
=============================================================================
