-------------------------------- MODULE Bind --------------------------------
(***************************************************************************)
(* C08: how a payload binds to an actor signature.  A signature is a       *)
(* sequence of parameters [kind, dflt, dep]; kinds PO (positional-only),   *)
(* PK (positional-or-keyword), VA ( *args ), KO (keyword-only), VK         *)
(* ( **kwargs ).  A payload is the set of parameter positions it has an    *)
(* entry for, plus a number of extra keys, or Empty (job enqueued without  *)
(* arguments).  Bind gives, per parameter, "v" (payload entry), "d"        *)
(* (declared default), "dep" (resolved dependency) or "-" (catch-all), and *)
(* where the extras go -- or Fail.  The operators are the oracle for what  *)
(* the real converters + the real call do (Trace_Bind), and MC_Bind checks *)
(* the statement's clauses on every well-formed signature.                 *)
(***************************************************************************)
EXTENDS Integers, Sequences, FiniteSets

Kinds == <<"PO", "PK", "VA", "KO", "VK">>
Rank(k) == CHOOSE r \in 1..5 : Kinds[r] = k
Params == [kind : {"PO", "PK", "VA", "KO", "VK"}, dflt : BOOLEAN, dep : BOOLEAN]

WellFormed(sig) ==
    /\ \A i \in 1..Len(sig) - 1 : Rank(sig[i].kind) <= Rank(sig[i + 1].kind)
    /\ Cardinality({i \in 1..Len(sig) : sig[i].kind = "VA"}) <= 1
    /\ Cardinality({i \in 1..Len(sig) : sig[i].kind = "VK"}) <= 1
    /\ \A i \in 1..Len(sig) : sig[i].kind \in {"VA", "VK"} => (~sig[i].dflt /\ ~sig[i].dep)
    /\ \A i \in 1..Len(sig) : sig[i].dep => ~sig[i].dflt
    \* Python: no positional parameter without default after one with default
    /\ \A i, j \in 1..Len(sig) : (i < j /\ sig[i].kind \in {"PO", "PK"} /\ sig[j].kind \in {"PO", "PK"} /\ sig[i].dflt) => sig[j].dflt

(* unsupported declarations, to be refused when the actor is declared *)
Declarable(sig) == \A i \in 1..Len(sig) : sig[i].dep => sig[i].kind \in {"PK", "KO"}

Has(sig, k) == \E i \in 1..Len(sig) : sig[i].kind = k
Named(sig) == {i \in 1..Len(sig) : sig[i].kind \in {"PO", "PK", "KO"} /\ ~sig[i].dep}

(* pay: set of positions with a payload entry (subset of Named); extras: Nat; empty: BOOLEAN *)
Missing(sig, pay) == {i \in Named(sig) : i \notin pay /\ ~sig[i].dflt}
Fails(sig, pay, empty) == Missing(sig, IF empty THEN {} ELSE pay) # {}

Val(sig, pay, empty, i) ==
    IF sig[i].kind \in {"VA", "VK"} THEN "-"
    ELSE IF sig[i].dep THEN "dep"
    ELSE IF ~empty /\ i \in pay THEN "v" ELSE "d"

Bind(sig, pay, extras, empty) ==
    IF Fails(sig, pay, empty) THEN [fail |-> TRUE, vals |-> <<>>, va |-> 0, vk |-> 0]
    ELSE [fail |-> FALSE,
          vals |-> [i \in 1..Len(sig) |-> Val(sig, pay, empty, i)],
          vk |-> IF ~empty /\ Has(sig, "VK") THEN extras ELSE 0,
          va |-> IF ~empty /\ ~Has(sig, "VK") /\ Has(sig, "VA") THEN extras ELSE 0]
=============================================================================
