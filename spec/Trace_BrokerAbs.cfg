SPECIFICATION TSpec
CONSTANTS
  Ids = {1,2,3,4,5,6,7,8,9,10,11,12,13,14,15,16,17,18,19,20,21,22,23,24,25,26,27,28,29,30}
  Consumers = {1,2,3,4,5,6,7,8,9,10,11,12,13,14,15,16,17,18,19,20}
  Topics = {1,2,3}
  MaxTime = 0
  Dues = {}
  Exps = {}
  ConsCfgs <- TraceConsCfgs
CONSTRAINT Progress
POSTCONDITION Accepted
CHECK_DEADLOCK FALSE
