----------------------------- MODULE BrokerRedis -----------------------------
(***************************************************************************)
(* Implementation-shaped specification of the Redis consumer's take path   *)
(* (repid.connections.redis.consumer), one queue, one priority, at the     *)
(* granularity of server round trips:                                      *)
(*   Fetch(c)   LRANGE q -W -1          -> c remembers the window (snapshot) *)
(*   Pick(c)    scans the snapshot from its first element (the newest of   *)
(*              the W oldest names) for a name of one of its topics        *)
(*   TakeTxn(c) MULTI { LREM q -1 name ; ZADD processing name ; HSET ... } *)
(*              -- the result of LREM is not inspected                     *)
(*   Details(c) HGET payload/parameters, then the message is in c's local  *)
(*              queue (handed to the client by consume())                  *)
(* plus Enqueue (LPUSH at the head), Ack, Reject (RPUSH at the tail).      *)
(* Two switches select the behaviour of the pinned code (FALSE) or of the  *)
(* obvious repair (TRUE); TLC shows that the pinned behaviour violates     *)
(* OneHolder (C14, finding redis-double-take) and Fifo (C15, finding       *)
(* redis-lifo-window) and that the repaired variants satisfy them.         *)
(***************************************************************************)
EXTENDS Integers, Sequences, FiniteSets, SequencesExt, TLC

CONSTANTS Ids, Consumers, W,
          CheckedTake,   \* TRUE: a take only succeeds if LREM removed the name (compare-and-take)
          ScanOldest     \* TRUE: the window is scanned from its oldest element

VARIABLES list,        \* the normal list, head first (LPUSH adds at index 1), tail = oldest
          processing,  \* set of names in the processing zset
          pc, snap, pick,   \* per consumer: program counter, window snapshot, chosen name
          holds,       \* per consumer: names it has taken and not yet settled
          enq, order   \* ids enqueued so far (in order) / ids delivered so far (in order)
vars == <<list, processing, pc, snap, pick, holds, enq, order>>

Init == /\ list = <<>> /\ processing = {} /\ pc = [c \in Consumers |-> "idle"]
        /\ snap = [c \in Consumers |-> <<>>] /\ pick = [c \in Consumers |-> 0]
        /\ holds = [c \in Consumers |-> {}] /\ enq = <<>> /\ order = <<>>

Enqueue(i) == /\ ~(\E k \in 1..Len(enq) : enq[k] = i)
              /\ list' = <<i>> \o list /\ enq' = Append(enq, i)
              /\ UNCHANGED <<processing, pc, snap, pick, holds, order>>

Window == IF Len(list) <= W THEN list ELSE SubSeq(list, Len(list) - W + 1, Len(list))
Fetch(c) == /\ pc[c] = "idle" /\ list # <<>>
            /\ snap' = [snap EXCEPT ![c] = Window] /\ pc' = [pc EXCEPT ![c] = "fetched"]
            /\ UNCHANGED <<list, processing, pick, holds, enq, order>>
Pick(c) == /\ pc[c] = "fetched"
           /\ pick' = [pick EXCEPT ![c] = IF ScanOldest THEN snap[c][Len(snap[c])] ELSE snap[c][1]]
           /\ pc' = [pc EXCEPT ![c] = "picked"]
           /\ UNCHANGED <<list, processing, snap, holds, enq, order>>
RemoveLast(s, i) == LET ks == {k \in 1..Len(s) : s[k] = i} IN
                    IF ks = {} THEN s
                    ELSE LET k == CHOOSE k \in ks : \A j \in ks : j <= k IN SubSeq(s, 1, k - 1) \o SubSeq(s, k + 1, Len(s))
InList(i) == \E k \in 1..Len(list) : list[k] = i
TakeTxn(c) ==
    /\ pc[c] = "picked"
    /\ LET i == pick[c] IN
       IF CheckedTake /\ ~InList(i)
       THEN /\ pc' = [pc EXCEPT ![c] = "idle"]                       \* somebody else was faster: try again
            /\ UNCHANGED <<list, processing, holds, order>>
       ELSE /\ list' = RemoveLast(list, i)
            /\ processing' = processing \cup {i}
            /\ holds' = [holds EXCEPT ![c] = @ \cup {i}]
            /\ order' = Append(order, i)
            /\ pc' = [pc EXCEPT ![c] = "idle"]
    /\ UNCHANGED <<snap, pick, enq>>
Ack(c, i) == /\ i \in holds[c] /\ holds' = [holds EXCEPT ![c] = @ \ {i}] /\ processing' = processing \ {i}
             /\ UNCHANGED <<list, pc, snap, pick, enq, order>>

Next == \/ \E i \in Ids : Enqueue(i)
        \/ \E c \in Consumers : Fetch(c) \/ Pick(c) \/ TakeTxn(c) \/ \E i \in Ids : Ack(c, i)
Spec == Init /\ [][Next]_vars

(* C14: never two consumers holding the same message *)
OneHolder == \A c1, c2 \in Consumers : c1 # c2 => holds[c1] \cap holds[c2] = {}
(* C14: nothing delivered twice *)
NoDuplicateDelivery == \A a, b \in 1..Len(order) : a # b => order[a] # order[b]
(* C15 (single consumer): delivery order is enqueue order *)
PosIn(s, i) == CHOOSE k \in 1..Len(s) : s[k] = i
Fifo == \A a, b \in 1..Len(order) : a < b => PosIn(enq, order[a]) < PosIn(enq, order[b])
=============================================================================
