SPECIFICATION Spec
CONSTANTS
  Msgs = {"a", "b", "c"}
  TL = 1
  ML = 0
  MaxRetries = 1
  Repaired = TRUE
  Prefetch = 2
  FinishMode = "local"
INVARIANT Conservation
INVARIANT RunningBound
INVARIANT StartedBound
INVARIANT TriedBound
CONSTRAINT Bounded
