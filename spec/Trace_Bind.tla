---- MODULE Trace_Bind ----
(* every recorded binding (real converter + real call) must equal Bind(sig, payload) *)
EXTENDS Bind, Json, IOUtils, TLC, TLCExt, SequencesExt
Traces == JsonDeserialize(IOEnv.TRACE_FILE)
VARIABLES tid, l
Ev == Traces[tid][l]
Init == tid \in 1..Len(Traces) /\ l = 1 /\ TLCSet(tid, 1)
Sig(e) == [i \in 1..Len(e.sig) |-> [kind |-> e.sig[i].kind, dflt |-> e.sig[i].dflt, dep |-> e.sig[i].dep]]
Ok(e) == LET s == Sig(e) IN
    /\ WellFormed(s)
    /\ IF e.decl = "rejected"
       THEN ~Declarable(s) \/ (e.conv = "pydantic" /\ (Has(s, "VA") \/ Has(s, "VK")))   \* refused at declaration
       ELSE /\ Declarable(s)
            /\ ToSet(e.pay) \subseteq Named(s)
            /\ LET b == Bind(s, ToSet(e.pay), e.extras, e.empty) IN
               /\ b.fail = e.got.fail
               /\ ~b.fail => (/\ e.got.vals = b.vals /\ e.got.va = b.va /\ e.got.vk = b.vk)
Next == l <= Len(Traces[tid]) /\ Ok(Ev) /\ l' = l + 1 /\ UNCHANGED tid
Spec == Init /\ [][Next]_<<tid, l>>
Progress == TLCSet(tid, IF TLCGet(tid) < l THEN l ELSE TLCGet(tid))
Accepted == {t \in 1..Len(Traces) : TLCGet(t) # Len(Traces[t]) + 1 /\ PrintT(<<"REJECT", t, TLCGet(t)>>)} = {} \/ TRUE
====
