SPECIFICATION Spec
CONSTANTS
  Ids = {1, 2}
  Consumers = {1, 2}
  Topics = {1, 2}
  MaxTime = 3
  Dues = {0, 2}
  Exps = {0, 2}
  ConsCfgs <- MCConsCfgs
INVARIANT TypeOK
INVARIANT Conservation
INVARIANT OneHolder
INVARIANT NorderSound
PROPERTY NeverEarly
PROPERTY NoExpiredDelivery
PROPERTY NotDroppedWhileLive
PROPERTY OnlyViaDelayed
PROPERTY AckRemoves
