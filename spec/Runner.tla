------------------------------- MODULE Runner -------------------------------
(***************************************************************************)
(* Implementation-shaped specification of repid._runner._Runner +          *)
(* Worker.run over NQ queues (one consumer and one consumer loop per       *)
(* queue, all sharing the slots and the messages budget), one action per   *)
(* event-loop step that changes the state the properties talk about:       *)
(*   consumer      : (brokers with prefetch) fetch: the message is marked  *)
(*                   in flight -> it is put into the consumer's local      *)
(*                   queue; (in-memory) taken directly by consume()        *)
(*   consumer loop : consume: the wrapped call's inner task returns the    *)
(*                   message (`handing') -> the loop resumes with it ->    *)
(*                   (budget check) -> acquire slot (pause / unpause       *)
(*                   around a blocked acquire) -> spawn                    *)
(*   task          : spawned -> running -> report (ack / nack / requeue)   *)
(*                   -> done-callback (release slot, count, stop if the    *)
(*                   messages limit is used up)                            *)
(*   shutdown      : stop request -> consume task cancelled (a message     *)
(*                   taken but not spawned is rejected) -> wait for tasks  *)
(*                   up to the graceful period -> cancel event -> every    *)
(*                   pending task is cancelled and its message rejected -> *)
(*                   consumer finish returns what the consumer still holds *)
(* A stop that arrives between `handing' and the resumption cancels the   *)
(* loop with the message in nobody's hands (middlewares/wrapper.py awaits  *)
(* the inner task: its result is discarded with the cancelled caller); a   *)
(* stop that arrives between fetch and local queue cancels the fetch.      *)
(* Whether such a message is in flight for good depends on finish():       *)
(* FinishMode "taken" = everything the consumer took and nobody settled    *)
(* (in-memory; RabbitMQ after 7eefe93), "local" = only the local queue     *)
(* (Redis; RabbitMQ before 7eefe93): known finding                         *)
(* redis-stop-leaves-in-flight is TLC's counter-example to AtReturn.       *)
(* It models the code AFTER the repairs 70a6e6e / d7fe061 (messages limit  *)
(* checked before a task is started) and ee8c893 (message returned when    *)
(* the slot wait is cancelled); switch `Repaired = FALSE` gives the pinned *)
(* behaviour, on which TLC finds the violations of StartedBound (C10) and  *)
(* AtReturn (C03) that the trace checks found on the real code.            *)
(* Recorded worker runs are validated against this specification by        *)
(* Trace_Runner (events with arguments; Acquire / Callback / FG are the    *)
(* silent steps): the worker's configuration is therefore a variable (wc)  *)
(* and messages may arrive while the worker runs (pool, Arrive).           *)
(***************************************************************************)
EXTENDS Integers, Sequences, FiniteSets, TLC
CONSTANTS Msgs,         \* message ids (positive integers)
          NQ,           \* model checking: number of queues (message m waits in queue ((m - 1) % NQ) + 1)
          TL, ML, MaxRetries,   \* model checking: tasks limit, messages limit (0: none), retries of every message
          Late,         \* model checking: TRUE = any subset of the messages arrives while the worker runs
          Repaired,
          BudgetCheck,  \* "after_slot": the budget is checked once the slot is held, in the step that starts the task (the code);
                        \* "before_slot": checked before waiting for a slot and not again (a plausible reordering: TLC shows it overshoots)
          Prefetch,     \* 0: consume() takes from the broker itself (in-memory); n > 0: a background fetch keeps up to n messages in a local queue
          FinishMode    \* "taken" | "local", see above

WaitCancelled == FALSE     \* (TRUE, see MC_Runner_repaired_wait.cfg: repair 4f7ea67 -- the cancelled executions give back before the consumers are finished;
                           \*  trace validation keeps the weaker FALSE: a give-back issued by a cancelled slot wait is still under way then)
TrueC == TRUE
VARIABLES wc,                                \* configuration [tl, ml, maxr : Msgs -> Nat, qof : Msgs -> queue, nq, pf (prefetch), fm (finish mode)] (never changes)
          pool,                              \* messages not yet enqueued
          q, proc, dead, acked, tried,      \* broker: waiting sequence per queue, in flight, dead, acknowledged, attempt counters
          cl, clm,                           \* per queue, consumer loop: pc, message in hand
          fetch, lq, hand,                   \* per queue, consumer: message being fetched, local queue, message returned by the inner consume task
          fin,                               \* per queue: the consumer has been finished
          sem, tpc, out,                     \* free slots; per message: task pc, outcome
          processed, started, running,
          stop, cancel, phase
vars == <<wc, pool, q, proc, dead, acked, tried, cl, clm, fetch, lq, hand, fin, sem, tpc, out, processed, started, running, stop, cancel, phase>>
None == 0
QMAX == 3
Qs == 1..wc.nq
Perms(S) == {t \in [1..Cardinality(S) -> S] : \A a, b \in DOMAIN t : a # b => t[a] # t[b]}
Rm(s, m) == SelectSeq(s, LAMBDA y : y # m)
InSeq(s, m) == \E k \in 1..Len(s) : s[k] = m
InQ(m) == InSeq(q[wc.qof[m]], m)
OfQueue(S, k) == {m \in S : wc.qof[m] = k}

InitWith(cfg, late) ==
        /\ wc = cfg /\ pool = late
        /\ \E p1 \in Perms({m \in Msgs \ late : cfg.qof[m] = 1}), p2 \in Perms({m \in Msgs \ late : cfg.qof[m] = 2}),
              p3 \in Perms({m \in Msgs \ late : cfg.qof[m] = 3}) : q = <<p1, p2, p3>>
        /\ proc = {} /\ dead = {} /\ acked = {} /\ tried = [m \in Msgs |-> 0]
        /\ cl = [k \in 1..QMAX |-> IF k <= cfg.nq THEN "consume" ELSE "ended"] /\ clm = [k \in 1..QMAX |-> None]
        /\ sem = cfg.tl /\ fetch = [k \in 1..QMAX |-> {}] /\ lq = [k \in 1..QMAX |-> <<>>] /\ hand = [k \in 1..QMAX |-> None]
        /\ fin = [k \in 1..QMAX |-> k > cfg.nq]
        /\ tpc = [m \in Msgs |-> "none"] /\ out = [m \in Msgs |-> "ok"]
        /\ processed = 0 /\ started = 0 /\ running = 0
        /\ stop = FALSE /\ cancel = FALSE /\ phase = "run"
Init == \E late \in (IF Late THEN SUBSET Msgs ELSE {{}}) :
            InitWith([tl |-> TL, ml |-> ML, maxr |-> [m \in Msgs |-> MaxRetries], qof |-> [m \in Msgs |-> ((m - 1) % NQ) + 1], nq |-> NQ,
                      pf |-> Prefetch, fm |-> FinishMode], late)

OverBudget(s) == wc.ml > 0 /\ wc.ml - processed - (wc.tl - s) < 0      \* with s free slots
BudgetUsed(s) == wc.ml > 0 /\ wc.ml - processed - (wc.tl - s) <= 0     \* what max_tasks_hit computes

U(vs) == UNCHANGED vs
Arrive(m) == /\ m \in pool /\ pool' = pool \ {m} /\ q' = [q EXCEPT ![wc.qof[m]] = Append(@, m)]
             /\ U(<<wc, proc, dead, acked, tried, cl, clm, fetch, lq, hand, fin, sem, tpc, out, processed, started, running, stop, cancel, phase>>)
StopRequest == /\ ~stop /\ phase = "run" /\ stop' = TRUE
               /\ U(<<wc, pool, q, proc, dead, acked, tried, cl, clm, fetch, lq, hand, fin, sem, tpc, out, processed, started, running, cancel, phase>>)

(* A stop request is not noticed at once: the event wakes run_one_queue, which cancels the consume task, which sees the  *)
(* cancellation at its next await -- in between the consumer loop goes on (take, resume, slot, spawn): its actions are     *)
(* not guarded by ~stop; CL_Cancel is what ends the loop.                                                                  *)
(* in-memory: consume() takes a waiting message itself (the head of the queue; a trace names it); its inner task returns it *)
\* (tasks are keyed by message: a message is not taken again before the done-callback of its previous task has run --
\*  the callback is scheduled in the loop step that ends the task, a new take needs several steps)
CL_TakeM(m) == LET k == wc.qof[m] IN
               /\ wc.pf = 0 /\ cl[k] = "consume" /\ InQ(m) /\ tpc[m] = "none"
               /\ proc' = proc \cup {m} /\ hand' = [hand EXCEPT ![k] = m] /\ q' = [q EXCEPT ![k] = Rm(@, m)]
               /\ cl' = [cl EXCEPT ![k] = "handing"]
               /\ U(<<wc, pool, dead, acked, tried, clm, fetch, lq, fin, sem, tpc, out, processed, started, running, stop, cancel, phase>>)
CL_Take(k) == q[k] # <<>> /\ CL_TakeM(Head(q[k]))
(* brokers with prefetch: the background fetch marks a message in flight, then puts it into the local queue *)
\* (how many messages a consumer may have fetched ahead is the broker's business -- Redis: the local queue is bounded, the fetch
\*  blocks on the put; RabbitMQ: the prefetch count bounds the unacknowledged deliveries --: a trace is not judged on it)
C_FetchAny(m) == LET k == wc.qof[m] IN
               /\ wc.pf > 0 /\ InQ(m) /\ ~fin[k] /\ tpc[m] = "none"
               /\ proc' = proc \cup {m} /\ fetch' = [fetch EXCEPT ![k] = @ \cup {m}] /\ q' = [q EXCEPT ![k] = Rm(@, m)]
               /\ U(<<wc, pool, dead, acked, tried, cl, clm, lq, hand, fin, sem, tpc, out, processed, started, running, stop, cancel, phase>>)
C_FetchM(m) == Cardinality(fetch[wc.qof[m]]) + Len(lq[wc.qof[m]]) < wc.pf /\ C_FetchAny(m)
C_Fetch(k) == q[k] # <<>> /\ C_FetchM(Head(q[k]))
C_LocalM(m) == LET k == wc.qof[m] IN
               /\ m \in fetch[k] /\ ~fin[k] /\ lq' = [lq EXCEPT ![k] = Append(@, m)] /\ fetch' = [fetch EXCEPT ![k] = @ \ {m}]
               /\ U(<<wc, pool, q, proc, dead, acked, tried, cl, clm, hand, fin, sem, tpc, out, processed, started, running, stop, cancel, phase>>)
C_Local(k) == \E m \in fetch[k] : C_LocalM(m)
\* the consumer gives a message it has fetched straight back (RabbitMQ: a delivery that reaches a paused or no longer consuming
\* consumer is rejected after 0.1 s)
C_ReturnM(m) == LET k == wc.qof[m] IN
                /\ m \in fetch[k] /\ q' = [q EXCEPT ![k] = Append(@, m)] /\ proc' = proc \ {m}
                /\ fetch' = [fetch EXCEPT ![k] = @ \ {m}]
                /\ U(<<wc, pool, dead, acked, tried, cl, clm, lq, hand, fin, sem, tpc, out, processed, started, running, stop, cancel, phase>>)
C_Return(k) == \E m \in fetch[k] : C_ReturnM(m)
CL_Get(k) == /\ wc.pf > 0 /\ cl[k] = "consume" /\ lq[k] # <<>>
             /\ hand' = [hand EXCEPT ![k] = Head(lq[k])] /\ lq' = [lq EXCEPT ![k] = Tail(@)] /\ cl' = [cl EXCEPT ![k] = "handing"]
             /\ U(<<wc, pool, q, proc, dead, acked, tried, clm, fetch, fin, sem, tpc, out, processed, started, running, stop, cancel, phase>>)
(* the consumer loop resumes with the message *)
CL_Resume(k) == /\ cl[k] = "handing" /\ clm' = [clm EXCEPT ![k] = hand[k]] /\ hand' = [hand EXCEPT ![k] = None]
                /\ cl' = [cl EXCEPT ![k] = "got"]
                /\ U(<<wc, pool, q, proc, dead, acked, tried, fetch, lq, fin, sem, tpc, out, processed, started, running, stop, cancel, phase>>)
(* acquire a slot (possibly after waiting), then the budget check of the repaired code, then spawn *)
CL_Wait(k) == /\ cl[k] = "got" /\ sem = 0 /\ cl' = [cl EXCEPT ![k] = "wait"]
              /\ (BudgetCheck = "before_slot" /\ Repaired) => ~BudgetUsed(sem)
              /\ U(<<wc, pool, q, proc, dead, acked, tried, clm, fetch, lq, hand, fin, sem, tpc, out, processed, started, running, stop, cancel, phase>>)
\* over budget: the slot is released again, the message rejected, consumption stopped
CL_OverBudget(k) ==
    /\ Repaired
    /\ IF BudgetCheck = "after_slot" THEN cl[k] \in {"got", "wait"} /\ sem > 0 /\ OverBudget(sem - 1)
                                      ELSE cl[k] = "got" /\ BudgetUsed(sem)
    /\ q' = [q EXCEPT ![k] = Append(@, clm[k])] /\ proc' = proc \ {clm[k]} /\ stop' = TRUE
    /\ cl' = [cl EXCEPT ![k] = "ended"] /\ clm' = [clm EXCEPT ![k] = None]
    /\ U(<<wc, pool, dead, acked, tried, fetch, lq, hand, fin, sem, tpc, out, processed, started, running, cancel, phase>>)
CL_Spawn(k) ==
    /\ cl[k] \in {"got", "wait"} /\ sem > 0
    /\ IF BudgetCheck = "after_slot" THEN ~(Repaired /\ OverBudget(sem - 1))
                                      ELSE (cl[k] = "got" /\ Repaired) => ~BudgetUsed(sem)
    /\ sem' = sem - 1 /\ tpc' = [tpc EXCEPT ![clm[k]] = "spawned"] /\ clm' = [clm EXCEPT ![k] = None]
    /\ IF Repaired /\ BudgetUsed(sem - 1)
       THEN stop' = TRUE /\ cl' = [cl EXCEPT ![k] = "ended"]             \* budget used up: stop consuming now
       ELSE cl' = [cl EXCEPT ![k] = "consume"] /\ U(<<stop>>)
    /\ U(<<wc, pool, q, proc, dead, acked, tried, fetch, lq, hand, fin, out, processed, started, running, cancel, phase>>)
CL_Acquire(k) == CL_Wait(k) \/ CL_OverBudget(k) \/ CL_Spawn(k)
(* consumption stopped: the consume task is cancelled; a message in hand is given back (repair ee8c893) *)
CL_Cancel(k) ==
    /\ stop /\ cl[k] \in {"consume", "handing", "got", "wait"}
    /\ IF clm[k] # None /\ Repaired
       THEN q' = [q EXCEPT ![k] = Append(@, clm[k])] /\ proc' = proc \ {clm[k]}
       ELSE U(<<q, proc>>)
    \* (a message the inner consume task has returned but the loop has not resumed with is dropped: nobody holds it)
    /\ cl' = [cl EXCEPT ![k] = "ended"] /\ clm' = [clm EXCEPT ![k] = None] /\ hand' = [hand EXCEPT ![k] = None]
    /\ U(<<wc, pool, dead, acked, tried, fetch, lq, fin, sem, tpc, out, processed, started, running, stop, cancel, phase>>)

T_Start(m) == /\ tpc[m] = "spawned" /\ ~cancel
              /\ tpc' = [tpc EXCEPT ![m] = "running"] /\ started' = started + 1 /\ running' = running + 1
              /\ \E o \in {"ok", "fail"} : out' = [out EXCEPT ![m] = o]
              /\ U(<<wc, pool, q, proc, dead, acked, tried, cl, clm, fetch, lq, hand, fin, sem, processed, stop, cancel, phase>>)
T_End(m) == /\ tpc[m] = "running" /\ tpc' = [tpc EXCEPT ![m] = "report"] /\ running' = running - 1
            /\ U(<<wc, pool, q, proc, dead, acked, tried, cl, clm, fetch, lq, hand, fin, sem, out, processed, started, stop, cancel, phase>>)
(* ack / nack / requeue are single atomic steps of the (repaired) in-memory broker *)
T_Report(m) ==
    /\ tpc[m] = "report" /\ m \in proc
    /\ CASE out[m] = "ok" -> proc' = proc \ {m} /\ acked' = acked \cup {m} /\ U(<<q, dead, tried>>)
         [] out[m] = "fail" /\ tried[m] < wc.maxr[m] ->
                 proc' = proc \ {m} /\ q' = [q EXCEPT ![wc.qof[m]] = Append(@, m)] /\ tried' = [tried EXCEPT ![m] = @ + 1] /\ U(<<dead, acked>>)
         [] OTHER -> proc' = proc \ {m} /\ dead' = dead \cup {m} /\ U(<<q, acked, tried>>)
    /\ tpc' = [tpc EXCEPT ![m] = "cb"]
    /\ U(<<wc, pool, cl, clm, fetch, lq, hand, fin, sem, out, processed, started, running, stop, cancel, phase>>)
(* forced cancellation: the task is cancelled wherever it is, its message rejected (if still held) *)
T_Cancel(m) == /\ cancel /\ tpc[m] \in {"spawned", "running", "report"}
               /\ running' = IF tpc[m] = "running" THEN running - 1 ELSE running
               /\ IF m \in proc THEN proc' = proc \ {m} /\ q' = [q EXCEPT ![wc.qof[m]] = Append(@, m)] ELSE U(<<proc, q>>)
               /\ tpc' = [tpc EXCEPT ![m] = "cb"]
               /\ U(<<wc, pool, dead, acked, tried, cl, clm, fetch, lq, hand, fin, sem, out, processed, started, stop, cancel, phase>>)
T_Callback(m) == /\ tpc[m] = "cb" /\ sem' = sem + 1 /\ processed' = processed + 1
                 /\ tpc' = [tpc EXCEPT ![m] = IF m \in acked \/ m \in dead THEN "done" ELSE "none"]
                 /\ stop' = (stop \/ (wc.ml > 0 /\ wc.ml - (processed + 1) - (wc.tl - (sem + 1)) <= 0))
                 /\ U(<<wc, pool, q, proc, dead, acked, tried, cl, clm, fetch, lq, hand, fin, out, started, running, cancel, phase>>)

Active == {m \in Msgs : tpc[m] \in {"spawned", "running", "report", "cb"}}
(* finish_gracefully: every consumer loop has ended; all tasks done, or the graceful period is over (either may happen) -> cancel event *)
FG == /\ phase = "run" /\ \A k \in Qs : cl[k] = "ended"
      /\ phase' = "fin" /\ cancel' = TRUE
      /\ U(<<wc, pool, q, proc, dead, acked, tried, cl, clm, fetch, lq, hand, fin, sem, tpc, out, processed, started, running, stop>>)
(* a consumer's finish(): what it took and nobody settled goes back.  Worker.run() does not wait for the tasks it has   *)
(* just cancelled: finish() may run while they are still rejecting their messages (a message that finish() has already  *)
(* returned is then no longer held: that reject finds nothing to do)                                                     *)
(* (repair 4f7ea67: finish_gracefully() now lets the executions it has cancelled give their messages back first: with         *)
(*  WaitCancelled a consumer is finished only when no cancelled execution still has its give-back ahead of it)                *)
ConsFinish(k) ==
    /\ phase = "fin" /\ ~fin[k] /\ fin' = [fin EXCEPT ![k] = TRUE]
    /\ WaitCancelled => \A m \in Msgs : tpc[m] \notin {"spawned", "running", "report"}
    /\ IF wc.fm = "taken"
       THEN \* (a delivery the consumer is still looking at is not in its hands yet: it gives that one back itself, C_Return)
            /\ \E s \in Perms(OfQueue(proc, k) \ fetch[k]) : q' = [q EXCEPT ![k] = @ \o s]
            /\ proc' = proc \ (OfQueue(proc, k) \ fetch[k])
            /\ U(<<fetch>>)
       ELSE \* only what is in the local queue; the fetch under way is cancelled where it is
            /\ q' = [q EXCEPT ![k] = @ \o lq[k]] /\ proc' = proc \ {lq[k][j] : j \in 1..Len(lq[k])}
            /\ fetch' = [fetch EXCEPT ![k] = {}]
    /\ lq' = [lq EXCEPT ![k] = <<>>]
    /\ U(<<wc, pool, dead, acked, tried, cl, clm, hand, sem, tpc, out, processed, started, running, stop, cancel, phase>>)
Return == /\ phase = "fin" /\ \A k \in 1..QMAX : fin[k]
          /\ phase' = "ret"
          /\ U(<<wc, pool, q, proc, dead, acked, tried, cl, clm, fetch, lq, hand, fin, sem, tpc, out, processed, started, running, stop, cancel>>)
Next == StopRequest \/ FG \/ Return
        \/ \E k \in Qs : CL_Take(k) \/ C_Fetch(k) \/ C_Local(k) \/ C_Return(k) \/ CL_Get(k) \/ CL_Resume(k) \/ CL_Acquire(k) \/ CL_Cancel(k) \/ ConsFinish(k)
        \/ \E m \in Msgs : Arrive(m) \/ T_Start(m) \/ T_End(m) \/ T_Report(m) \/ T_Cancel(m) \/ T_Callback(m)
Spec == Init /\ [][Next]_vars

CountQ(m) == Cardinality({j \in 1..Len(q[wc.qof[m]]) : q[wc.qof[m]][j] = m})
Count(m) == CountQ(m) + (IF m \in proc THEN 1 ELSE 0)
            + (IF m \in dead THEN 1 ELSE 0) + (IF m \in acked THEN 1 ELSE 0) + (IF m \in pool THEN 1 ELSE 0)
Conservation == \A m \in Msgs : Count(m) = 1                     \* C01/C03 at every step
RunningBound == running <= wc.tl                                   \* C09
StartedBound == wc.ml > 0 => started <= wc.ml                      \* C10
AtReturn == (phase = "ret" /\ Active = {} /\ \A k \in 1..QMAX : fetch[k] = {}) =>
                (proc = {} /\ \A m \in Msgs : Count(m) = 1)      \* C03 (once the cancelled tasks and the consumers' stragglers are through)
TriedBound == \A m \in Msgs : tried[m] <= wc.maxr[m]             \* C04
SlotsSound == sem >= 0 /\ sem <= wc.tl /\ Cardinality(Active) = wc.tl - sem     \* the semaphore counts the tasks
OwnQueue == \A k \in 1..QMAX : \A j \in 1..Len(q[k]) : wc.qof[q[k][j]] = k          \* a message never changes queue
Bounded == processed <= 8 /\ started <= 8
=============================================================================
