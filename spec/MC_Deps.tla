---- MODULE MC_Deps ----
(* sanity theorems over all acyclic graphs with N nodes (kids of node i drawn from i+1..N) *)
EXTENDS Deps, TLC
CONSTANT N
VARIABLE g
KidSeqs(i) == {<<>>} \cup {<<a>> : a \in (i + 1)..N} \cup {<<a, b>> : a \in (i + 1)..N, b \in (i + 1)..N}
Init == g \in [1..N -> [tag : {"f"}, kids : UNION {KidSeqs(i) : i \in 1..N}, failing : BOOLEAN]]
        /\ \A i \in 1..N : g[i].kids \in KidSeqs(i) /\ g[i].tag = "f"
Next == UNCHANGED g
Spec == Init /\ [][Next]_g
FailsIffReachableFailing == \A n \in 1..N : Fails(g, n) <=> \E m \in Reach(g, n) : g[m].failing
OverrideIsLocal == \A n, m \in 1..N : (m \notin Reach(g, n)) => Value(Override(g, m, "h", <<>>), n) = Value(g, n)
OverrideEverywhere == \A n, m \in 1..N : (m \in Reach(g, n) /\ m # n) => Value(Override(g, m, "h", <<>>), n) # Value(g, n)
====
