SPECIFICATION Spec
CONSTANTS
  Ids = {1, 2, 3, 4, 5, 6}
  Consumers = {1, 2}
  Topics = {1}
  MaxTime = 5
  Dues = {0, 2, 4}
  Ttls = {0, 1, 2}
  MaxTag = 40
  ConsCfg <- CfgSimR2
INVARIANT Conservation
INVARIANT TagmapSound
INVARIANT OneStage
ACTION_CONSTRAINT SimOrder
