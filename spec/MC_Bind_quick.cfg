SPECIFICATION Spec
CONSTANT N = 3
INVARIANT EachParam
INVARIANT ExtrasOnlyToCatchAll
INVARIANT MissingFails
INVARIANT EmptyRunsIfAllDefaults
INVARIANT DepsNeverFromPayload
POSTCONDITION PrintCount
