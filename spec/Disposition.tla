----------------------------- MODULE Disposition -----------------------------
(* The worker's decision table (C02, C04, C06), shared by the abstract worker *)
(* model (WorkerAbs) and by the trace specification (Trace_Worker).           *)
EXTENDS Integers

(* outcome: "ok" | "fail";  tried/max: attempts used/allowed;  rec: recurring *)
Disposition(outcome, tried, max, rec) ==
    IF outcome = "fail" /\ tried < max THEN "retry"
    ELSE IF rec THEN "resched"
    ELSE IF outcome = "ok" THEN "ack"
    ELSE "nack"

(* which broker operation implements a disposition *)
OpOf(d) == CASE d = "ack" -> "ack" [] d = "nack" -> "nack" [] d = "retry" -> "requeue" [] d = "resched" -> "requeue"
=============================================================================
