------------------------------- MODULE Health -------------------------------
(***************************************************************************)
(* C20: the health endpoint.  The port is open exactly while the worker    *)
(* runs; GET <endpoint> answers 200 while all consumers are alive and 503  *)
(* after any has failed -- evaluated when the request is answered --, any  *)
(* other path or method 404; whatever bytes arrive, the server stays up,   *)
(* the status is unchanged and a malformed request is at worst dropped     *)
(* (connection closed without a response).                                 *)
(***************************************************************************)
EXTENDS Integers, FiniteSets, TLC
CONSTANTS Conns

Classes == {"get_ep", "get_other", "other_method", "fragment", "binary", "empty", "short_line", "oversized", "get_ep_fragmented"}
Valid == {"get_ep", "get_other", "other_method", "oversized"}

VARIABLES running, open, alive, cs, resp
vars == <<running, open, alive, cs, resp>>

Init == /\ running = FALSE /\ open = FALSE /\ alive = TRUE
        /\ cs = [c \in Conns |-> "idle"] /\ resp = [c \in Conns |-> -1]

RunStart == ~running /\ running' = TRUE /\ open' = TRUE /\ UNCHANGED <<alive, cs, resp>>
RunEnd == running /\ running' = FALSE /\ open' = FALSE /\ UNCHANGED <<alive, cs, resp>>
ConsumerFails == running /\ alive /\ alive' = FALSE /\ UNCHANGED <<running, open, cs, resp>>
Connect(c) == open /\ cs[c] = "idle" /\ cs' = [cs EXCEPT ![c] = "open"] /\ UNCHANGED <<running, open, alive, resp>>

Expected(cls) == CASE cls \in {"get_ep", "oversized"} -> IF alive THEN 200 ELSE 503
                   [] cls \in {"get_other", "other_method"} -> 404
                   [] OTHER -> 0                              \* no response: connection dropped
(* a request (chunk) of class cls arrives on connection c and is answered with code r (0 = dropped) *)
Receive(c, cls, r) ==
    /\ cs[c] = "open"
    /\ \/ r = Expected(cls)
       \/ cls = "get_ep_fragmented" /\ r \in {0, IF alive THEN 200 ELSE 503}
    /\ resp' = [resp EXCEPT ![c] = r] /\ cs' = [cs EXCEPT ![c] = "closed"]
    /\ UNCHANGED <<running, open, alive>>          \* Robust: nothing else changes

Next == RunStart \/ RunEnd \/ ConsumerFails
        \/ \E c \in Conns : Connect(c) \/ \E cls \in Classes, r \in {0, 200, 503, 404} : Receive(c, cls, r)
Spec == Init /\ [][Next]_vars

OpenIffRunning == open <=> running
Truth == \A c \in Conns : resp[c] \in {-1, 0, 200, 503, 404}
(* a 200 is only ever given while all consumers are alive (alive never comes back) *)
No200AfterFailure == [][\A c \in Conns : (resp'[c] = 200 /\ resp[c] # 200) => alive]_vars
=============================================================================
