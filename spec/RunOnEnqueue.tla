---------------------------- MODULE RunOnEnqueue ----------------------------
(***************************************************************************)
(* C10, last sentence: the testing plug-in's run-on-enqueue mode wraps     *)
(* enqueue() so that a Worker(messages_limit = 1) is run right after the   *)
(* message was enqueued; enqueue returns after exactly that job was        *)
(* processed once -- whether enqueues follow one another, are nested (an   *)
(* actor enqueues a job) or run concurrently.                              *)
(* State: per job, how often it has been executed and whether its enqueue  *)
(* call has returned.                                                       *)
(***************************************************************************)
EXTENDS Integers, Sequences, FiniteSets, TLC, Json, IOUtils, TLCExt
CONSTANT Jobs
VARIABLES runs, returned
vars == <<runs, returned>>
Init == runs = [j \in Jobs |-> 0] /\ returned = [j \in Jobs |-> FALSE]
Exec(j) == runs' = [runs EXCEPT ![j] = @ + 1] /\ runs[j] = 0 /\ ~returned[j] /\ UNCHANGED returned
Return(j) == ~returned[j] /\ runs[j] = 1 /\ returned' = [returned EXCEPT ![j] = TRUE] /\ UNCHANGED runs
Next == \E j \in Jobs : Exec(j) \/ Return(j)
Spec == Init /\ [][Next]_vars
ExactlyOnce == \A j \in Jobs : runs[j] <= 1 /\ (returned[j] => runs[j] = 1)

(* ---- trace validation: events {e: "exec" | "ret", j} and a final {e: "end"} ---- *)
Traces == JsonDeserialize(IOEnv.TRACE_FILE)
VARIABLES tid, l
Ev == Traces[tid][l]
Is(k) == l <= Len(Traces[tid]) /\ Ev.e = k
Step == l' = l + 1 /\ UNCHANGED tid
TInit == Init /\ tid \in 1..Len(Traces) /\ l = 1 /\ TLCSet(tid, 1)
TExec == Is("exec") /\ Exec(Ev.j) /\ Step
TRet == Is("ret") /\ Return(Ev.j) /\ Step
TEnd == Is("end") /\ Step /\ (\A j \in 1..Ev.n : returned[j] /\ runs[j] = 1) /\ UNCHANGED vars
TNext == TExec \/ TRet \/ TEnd
TSpec == TInit /\ [][TNext]_<<vars, tid, l>>
Progress == TLCSet(tid, IF TLCGet(tid) < l THEN l ELSE TLCGet(tid))
Accepted == {t \in 1..Len(Traces) : TLCGet(t) # Len(Traces[t]) + 1 /\ PrintT(<<"REJECT", t, TLCGet(t)>>)} = {} \/ TRUE
=============================================================================
