---- MODULE Trace_Middleware ----
EXTENDS Middleware, Json, IOUtils, TLCExt, SequencesExt
Traces == JsonDeserialize(IOEnv.TRACE_FILE)
VARIABLES tid, l, info
Ev == Traces[tid][l]
Is(k) == l <= Len(Traces[tid]) /\ Ev.e = k
Step == l' = l + 1 /\ UNCHANGED tid
TInit == /\ tid \in 1..Len(Traces) /\ l = 1 /\ TLCSet(tid, 1)
         /\ st = [o \in Ops |-> "idle"] /\ nested = [o \in Ops |-> FALSE] /\ ok = [o \in Ops |-> FALSE]
         /\ conn = [o \in Ops |-> 0] /\ nb = [o \in Ops |-> 0] /\ na = [o \in Ops |-> 0]
         /\ sigconn = [o \in Ops |-> {}] /\ info = <<>>
TCall == /\ Is("call") /\ Step
         /\ st[Ev.k] = "idle" /\ st' = [st EXCEPT ![Ev.k] = "called"]
         /\ nested' = [nested EXCEPT ![Ev.k] = Ev.nested] /\ conn' = [conn EXCEPT ![Ev.k] = Ev.conn]
         /\ info' = (Ev.k :> [name |-> Ev.name, keys |-> ToSet(Ev.keys)]) @@ info
         /\ UNCHANGED <<ok, nb, na, sigconn>>
(* a signal: right name, right connection, the call's actual arguments by name (+ result) *)
TSig == /\ Is("sig") /\ Step
        /\ Ev.k \in DOMAIN info /\ Ev.name = info[Ev.k].name
        /\ IF Ev.kind = "before"
           THEN Before(Ev.k, Ev.conn) /\ ToSet(Ev.keys) = info[Ev.k].keys
           ELSE After(Ev.k, Ev.conn) /\ ToSet(Ev.keys) = info[Ev.k].keys \cup {"result"} /\ Ev.resok
        /\ UNCHANGED info
TEff == Is("eff") /\ Step /\ Eff(Ev.k) /\ UNCHANGED info
TDone == Is("done") /\ Step /\ Done(Ev.k, Ev.ok) /\ UNCHANGED info
TRet == Is("ret") /\ Step /\ Ret(Ev.k, Ev.ok) /\ UNCHANGED info
TNext == TCall \/ TSig \/ TEff \/ TDone \/ TRet
TSpec == TInit /\ [][TNext]_<<vars, tid, l, info>>
Progress == TLCSet(tid, IF TLCGet(tid) < l THEN l ELSE TLCGet(tid))
Accepted == {t \in 1..Len(Traces) : TLCGet(t) # Len(Traces[t]) + 1 /\ PrintT(<<"REJECT", t, TLCGet(t)>>)} = {} \/ TRUE
====
