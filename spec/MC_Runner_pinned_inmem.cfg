SPECIFICATION Spec
CONSTANTS
  Msgs = {"a", "b", "c"}
  TL = 2
  ML = 1
  MaxRetries = 1
  Repaired = FALSE
  Prefetch = 0
  FinishMode = "taken"
INVARIANT Conservation
INVARIANT RunningBound
INVARIANT StartedBound
INVARIANT AtReturn
INVARIANT TriedBound
CONSTRAINT Bounded
