SPECIFICATION Spec
CONSTANTS
  Ids = {1, 2, 3, 4, 5}
  Consumers = {1, 2, 3}
  MaxTime = 7
  Dues = {0, 2, 3, 5}
  Ttls = {0, 1, 3}
  Kinds = {"none", "net", "defer"}
  Period = 3
  Tmo = 2
  W = 10
  ConsCfg <- CfgNDX
INVARIANT Conservation
INVARIANT MarkedIffInFlight
ACTION_CONSTRAINT SimOrder
