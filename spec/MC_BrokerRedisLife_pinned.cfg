SPECIFICATION Spec
CONSTANTS
  Ids = {1, 2}
  Consumers = {1, 2}
  MaxTime = 4
  Dues = {0, 2, 3}
  Ttls = {0, 2}
  Kinds = {"none", "net", "defer"}
  Period = 3
  Tmo = 1
  W = 2
  ConsCfg <- CfgND
  KeepDue <- FalseC
VIEW NoHist
INVARIANT Conservation
INVARIANT MarkedIffInFlight
INVARIANT HeldIsInFlight
INVARIANT DueRemembered
PROPERTY ReturnKeepsDue
PROPERTY NotBeforeTimeout
PROPERTY NeverEarly
