--------------------------- MODULE MC_BrokerRabbit ---------------------------
(* BrokerRabbit: invariants, and refinement of the contract BrokerAbs.  Implementation steps that bundle several     *)
(* contract steps (finish() returning several deliveries) or that the contract's model-checking Next does not offer  *)
(* (a consumer that is still listening gives a prefetched delivery back) extend the contract's next-state relation.   *)
EXTENDS BrokerRabbit

C(cat, tps, pf) == [on |-> FALSE, reg |-> FALSE, fin |-> FALSE, cat |-> cat, topics |-> tps, paused |-> FALSE, pf |-> pf]
CfgN == <<C("n", {}, 0)>>
CfgN1 == <<C("n", {}, 1)>>
CfgNN == <<C("n", {}, 1), C("n", {}, 0)>>
CfgNX == <<C("n", {}, 0), C("x", {}, 0)>>
CfgND == <<C("n", {}, 1), C("d", {}, 0)>>
CfgTopics == <<C("n", {1}, 1), C("n", {2}, 1)>>
CfgSim == <<C("n", {1}, 2), C("d", {}, 1), C("x", {}, 0)>>

U(k) == [[n |-> 0, d |-> 0, x |-> 0, p |-> 0] EXCEPT ![k] = 1]
AbsLoc == [i \in Ids |-> [n |-> CountIn(qn, i), d |-> CountIn(Ids1(qd), i), x |-> CountIn(qx, i), p |-> CountU(i)]]
AbsM(i, m) == [q |-> 1, topic |-> m.topic, prio |-> 1, due |-> m.due, exp |-> m.exp, dl |-> 0, ver |-> m.ver, dues |-> 0]
AbsMeta0 == [q |-> 0, topic |-> 0, prio |-> 0, due |-> 0, exp |-> 0, dl |-> 0, ver |-> 0, dues |-> 0]
AbsMeta == [i \in Ids |-> IF st[i] = "new" THEN AbsMeta0 ELSE AbsM(i, meta[i])]
AbsPend == [i \in Ids |-> IF transit[i] THEN AbsM(i, pend[i]) ELSE AbsMeta0]
AbsCons == [c \in Consumers |-> [on |-> cons[c].reg, q |-> 1, cat |-> cons[c].cat, topics |-> cons[c].topics]]
AbsHolder == [i \in Ids |-> IF transit[i] THEN heldc[i]
                            ELSE IF \E u \in unacked : u.id = i THEN (CHOOSE u \in unacked : u.id = i).c ELSE 0]
(* the contract forgets a requeue's pending record lazily; compare it only while in transit *)
Abs == INSTANCE BrokerAbs WITH loc <- AbsLoc, meta <- AbsMeta, holder <- AbsHolder, origin <- orig, cons <- AbsCons,
                               norder <- norder, transit <- transit, pend <- AbsPend,
                               Exps <- 0..(MaxTime + 3), ConsCfgs <- {}

AllC == Abs!AllChk
(* a consumer that is still listening gives back a delivery it has not handed to its client (paused, foreign topic) *)
AbsGiveBack == \E c \in Consumers, i \in Ids, k \in {"n", "d", "x"} : ~deliv[i] /\ Abs!ReturnHeld(c, i, k)
(* finish(): all unsettled deliveries of the consumer go back in one step (client-held ones included) *)
AbsFinish ==
    \E c \in Consumers :
        LET R == {i \in Ids : AbsHolder[i] = c /\ AbsHolder'[i] # c} IN
        /\ R # {}
        /\ \A i \in R : AbsHolder'[i] = 0 /\ AbsLoc[i] = U("p") /\ ret'[i]
                         /\ \E k \in Abs!BackPlaces(i) : AbsLoc'[i] = U(k)
        /\ \A i \in Ids \ R : AbsHolder'[i] = AbsHolder[i] /\ AbsLoc'[i] = AbsLoc[i] /\ ret'[i] = ret[i]
        /\ \A k \in 1..Len(norder') : norder'[k] \in R \/ \E j \in 1..Len(norder) : norder[j] = norder'[k]
        /\ UNCHANGED <<now, st, AbsMeta, AbsCons, deliv, orig, transit>>
(* the recorded finding rabbit-prefetch-expiry: the time-to-live is judged when the delivery arrives, not at hand-over *)
AbsDeliverLate == \E c \in Consumers, i \in Ids : Abs!Deliver(c, i, AllC \ {"ttl"})
(* the pending record of the contract is only meaningful in transit: RequeueInsert leaves it, the mapping clears it *)
AbsRequeueInsert == \E i \in Ids, k \in {"n", "d"} :
        /\ transit[i] /\ ~transit'[i] /\ AbsLoc[i] = Abs!Zero /\ k \in Abs!RequeuePlace(AbsPend[i])
        /\ AbsMeta' = [AbsMeta EXCEPT ![i] = AbsPend[i]] /\ AbsLoc' = [AbsLoc EXCEPT ![i] = U(k)]
        /\ AbsHolder' = [AbsHolder EXCEPT ![i] = 0] /\ ret' = [ret EXCEPT ![i] = TRUE]
        /\ norder' = IF k = "n" /\ AbsPend[i].due = 0 THEN Append(Rm(norder, i), i) ELSE norder
        /\ UNCHANGED <<now, st, orig, deliv, AbsCons>>
absvars == <<now, st, AbsLoc, AbsMeta, AbsHolder, orig, deliv, ret, AbsCons, norder, transit>>
AbsStep == Abs!Next \/ AbsGiveBack \/ AbsFinish \/ AbsRequeueInsert
Refines == [][AbsStep]_absvars
RefinesButTtl == [][AbsStep \/ AbsDeliverLate]_absvars
AbsConservation == Abs!Conservation
AbsOneHolder == Abs!OneHolder
AbsNorderSound == Abs!NorderSound
AbsNeverEarly == Abs!NeverEarly
AbsNoExpiredDelivery == Abs!NoExpiredDelivery
AbsNotDroppedWhileLive == Abs!NotDroppedWhileLive
AbsAckRemoves == Abs!AckRemoves
(* C05 on this design: a delayed message that is due is waiting in the normal queue -- unless an earlier-published,  *)
(* later-due message sits in front of it (finding rabbit-delay-head-of-line): the invariant names exactly that case   *)
DueIsVisible == ~HeadExpired => \A k \in 1..Len(qd) : (qd[k][2] <= now) => \E j \in 1..(k - 1) : qd[j][2] > now
NoHeadOfLine == ~HeadExpired => \A k \in 1..Len(qd) : qd[k][2] > now
TrueC == TRUE
(* ---- behaviours for replay (tlc -simulate): the server and the callbacks run to quiescence before the client's next call;  *)
(* the rounds trips of requeue() and finish() follow one another; no pause (a paused consumer and the server bounce a          *)
(* delivery back and forth every 0.1 s, which a replay at whole-second ticks cannot follow)                                     *)
CanDeliver(c) == /\ cons[c].reg /\ Room(c) /\ ntag < MaxTag
                 /\ (CASE cons[c].cat = "n" -> qn # <<>> [] cons[c].cat = "d" -> qd # <<>> [] cons[c].cat = "x" -> qx # <<>>)
InternalEnabled == HeadExpired \/ cbs # {} \/ \E c \in Consumers : CanDeliver(c)
InternalActs == {"expire", "deliver", "cb_sleep", "cb_expired", "cb_queue", "cb_reject"}
SimOrder == /\ hist'[1] # "pause"
            \* the client library starts one task per delivery and the event loop runs them in the order they were created
            /\ (hist'[1] \in {"cb_sleep", "cb_expired", "cb_queue"}) => \A r \in cbs : r.stage = "new" => hist'[4] <= r.tag
            \* (between the two round trips of requeue() the server goes on: the publish arrives after what the ack set off)
            /\ (\E i \in Ids : transit[i]) => hist'[1] \in InternalActs \cup {"requeue_publish"}
            /\ (\E c \in Consumers : ~cons[c].on /\ cons[c].reg) => hist'[1] = "finish_cancel"
            /\ (\E c \in Consumers : cons[c].fin) => hist'[1] = "finish_reject"
            /\ (InternalEnabled /\ ~(\E c \in Consumers : cons[c].fin \/ (~cons[c].on /\ cons[c].reg)))
                  => hist'[1] \in InternalActs
            \* at most one delivery that is not in the local queue goes back at a finish (their order is the insertion order of a dict)
            /\ (hist'[1] = "finish_reject") =>
                  LET c == hist'[2] IN Cardinality({i \in Ids : delivd[c][i] # 0 /\ tagmap[i] = delivd[c][i] /\ ~\E k \in 1..Len(local[c]) : local[c][k] = i}) <= 1
CfgSimR == <<C("n", {}, 2), C("d", {}, 1), C("x", {}, 0)>>
CfgSimR2 == <<C("n", {}, 0), C("x", {}, 1)>>
Bound == ntag <= MaxTag
NoHist == <<now, qn, qd, qx, unacked, cbs, tagmap, delivd, local, cons, ntag, meta, st, heldc, transit, pend, deliv, orig, ret, norder>>
=============================================================================
