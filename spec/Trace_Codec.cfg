SPECIFICATION Spec
CONSTRAINT Progress
POSTCONDITION Accepted
CHECK_DEADLOCK FALSE
