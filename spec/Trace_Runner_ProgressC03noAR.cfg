SPECIFICATION TSpec
CONSTANTS
  Msgs = {1,2,3,4,5,6,7,8,9,10,11,12}
  NQ = 1
  TL = 1
  ML = 0
  MaxRetries = 0
  Late = FALSE
  Repaired = TRUE
  BudgetCheck = "after_slot"
  Prefetch = 0
  FinishMode = "taken"
CONSTRAINT ProgressC03noAR
POSTCONDITION Accepted
CHECK_DEADLOCK FALSE
