---- MODULE APA_Schedule ----
(* Apalache: the window/grid properties of the next-execution arithmetic for UNBOUNDED integers, *)
(* and the cadence property of the reschedule step (C06): anchoring the grid at the scheduled     *)
(* time S of the iteration that just ran (delivered at now >= S) puts the successor >= S + p.     *)
EXTENDS Integers
VARIABLES
  \* @type: Int;
  ts,
  \* @type: Int;
  now,
  \* @type: Int;
  p
Init == ts \in Int /\ now \in Int /\ p \in Int /\ p >= 1
Next == UNCHANGED <<ts, now, p>>
NextExec == ts + (((now - ts) \div p) + 1) * p
Window == now < NextExec /\ NextExec <= now + p
OnGrid == (NextExec - ts) % p = 0
Cadence == now >= ts => NextExec >= ts + p
Inv == Window /\ OnGrid /\ Cadence
====
