---- MODULE Trace_Codec ----
(* real validators / key constructors / parsers compared with the operators, one case per trace *)
EXTENDS Codec, Json, IOUtils, TLCExt
Traces == JsonDeserialize(IOEnv.TRACE_FILE)
VARIABLES tid, l
Ev == Traces[tid][l]
Init == tid \in 1..Len(Traces) /\ l = 1 /\ TLCSet(tid, 1)
Ok(e) == CASE e.t = "name" -> e.accepted = ValidName(e.s)
           [] e.t = "id" -> e.accepted = ValidId(e.s)
           [] e.t = "key" -> /\ ValidName(e.q) /\ ValidName(e.topic) /\ ValidId(e.id)
                             /\ e.parse_ok /\ e.short_ok            \* real parse(mnc(key)) = key
                             /\ e.filter_match = (e.topic = e.t2)    \* real prefix filter
                             /\ ParseOk(e.q, <<"D">>, e.topic, e.id) /\ FilterOk(e.topic, e.id, e.t2)
Next == l <= Len(Traces[tid]) /\ Ok(Ev) /\ l' = l + 1 /\ UNCHANGED tid
Spec == Init /\ [][Next]_<<tid, l>>
Progress == TLCSet(tid, IF TLCGet(tid) < l THEN l ELSE TLCGet(tid))
Accepted == {t \in 1..Len(Traces) : TLCGet(t) # Len(Traces[t]) + 1 /\ PrintT(<<"REJECT", t, TLCGet(t)>>)} = {} \/ TRUE
====
