SPECIFICATION TSpec
CONSTANT MaxLen = 0
CONSTRAINT Progress
POSTCONDITION Accepted
CHECK_DEADLOCK FALSE
