SPECIFICATION Spec
CONSTANTS
  Msgs = {1, 2, 3}
  NQ = 1
  TL = 2
  ML = 1
  MaxRetries = 1
  Late = FALSE
  Repaired = TRUE
  BudgetCheck = "after_slot"
  Prefetch = 0
  FinishMode = "taken"
INVARIANT Conservation
INVARIANT SlotsSound
INVARIANT RunningBound
INVARIANT StartedBound
INVARIANT AtReturn
INVARIANT TriedBound
CONSTRAINT Bounded
