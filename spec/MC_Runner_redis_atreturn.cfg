SPECIFICATION Spec
CONSTANTS
  Msgs = {1, 2, 3}
  TL = 1
  ML = 0
  MaxRetries = 1
  Late = FALSE
  Repaired = TRUE
  Prefetch = 2
  FinishMode = "local"
INVARIANT AtReturn
CONSTRAINT Bounded
