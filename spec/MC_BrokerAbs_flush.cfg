SPECIFICATION Spec
CONSTANTS
  Ids = {1, 2}
  Consumers = {1, 2}
  Topics = {1}
  MaxTime = 2
  Dues = {0, 2}
  Exps = {0}
  ConsCfgs <- MCConsCfgsFlush
  MCQueues <- MCTwoQueues
  FlushQs <- MCTwoQueues
INVARIANT TypeOK
INVARIANT Conservation
INVARIANT OneHolder
INVARIANT NorderSound
PROPERTY NeverEarly
PROPERTY OnlyViaDelayed
PROPERTY AckRemoves
PROPERTY FlushLocal
PROPERTY FlushComplete
PROPERTY GoneIsFinal
