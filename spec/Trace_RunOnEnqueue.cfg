SPECIFICATION TSpec
CONSTANTS
  Jobs = {1,2,3,4,5,6,7,8}
CONSTRAINT Progress
POSTCONDITION Accepted
CHECK_DEADLOCK FALSE
