---- MODULE MC_Bind ----
(* the clauses of C08 on every well-formed declarable signature with <= N parameters and every payload *)
EXTENDS Bind, TLC
CONSTANT N
VARIABLE c
Sigs == UNION {[1..n -> Params] : n \in 0..N}
Good == {s \in Sigs : WellFormed(s) /\ Declarable(s)}
Init == c \in {[sig |-> s, pay |-> p, extras |-> x, empty |-> e] : s \in Good, p \in SUBSET (1..N), x \in 0..2, e \in BOOLEAN}
Next == UNCHANGED c
Spec == Init /\ [][Next]_c
InDomain == c.pay \subseteq Named(c.sig) /\ (c.empty => (c.pay = {} /\ c.extras = 0))
B == Bind(c.sig, c.pay, c.extras, c.empty)
EachParam == (InDomain /\ ~B.fail) => \A i \in Named(c.sig) : B.vals[i] = (IF ~c.empty /\ i \in c.pay THEN "v" ELSE "d")
ExtrasOnlyToCatchAll == (InDomain /\ ~B.fail) => /\ B.va + B.vk \in {0, c.extras}
                                                 /\ (B.va > 0 => Has(c.sig, "VA")) /\ (B.vk > 0 => Has(c.sig, "VK"))
MissingFails == InDomain => (B.fail <=> \E i \in Named(c.sig) : ~c.sig[i].dflt /\ (c.empty \/ i \notin c.pay))
EmptyRunsIfAllDefaults == (InDomain /\ c.empty /\ \A i \in Named(c.sig) : c.sig[i].dflt) => ~B.fail
DepsNeverFromPayload == (InDomain /\ ~B.fail) => \A i \in 1..Len(c.sig) : c.sig[i].dep => B.vals[i] = "dep"
Count == Cardinality(Good)
PrintCount == TLCGet("level") >= 0 /\ PrintT(<<"GOODSIGS", Count>>)
====
