SPECIFICATION Spec
CONSTANT N = 3
INVARIANT RoundTrip
INVARIANT Filter
INVARIANT NoColon
