SPECIFICATION Spec
CONSTANTS
  Ids = {1, 2, 3}
  Consumers = {1, 2}
  W = 2
  CheckedTake = TRUE
  ScanOldest = FALSE
INVARIANT OneHolder
INVARIANT NoDuplicateDelivery

