---- MODULE Trace_Schedule ----
(* each recorded evaluation of the real functions must equal the operator's value *)
EXTENDS Schedule, Json, IOUtils, TLC, TLCExt, Sequences
Traces == JsonDeserialize(IOEnv.TRACE_FILE)
VARIABLES tid, l
Ev == Traces[tid][l]
Init == tid \in 1..Len(Traces) /\ l = 1 /\ TLCSet(tid, 1)
Ok(e) == CASE e.t = "bo" -> e.got = Backoff(e.k, e.mn, e.mx, e.mult, e.maxexp)
           [] e.t = "ne" -> e.got = (IF e.hasuntil THEN NextExecUntil(e.base, e.now, e.P, e.until) ELSE NextExec(e.base, e.now, e.P))
           [] e.t = "od" -> e.got = Overdue(e.now, e.ts, e.ttl)
Next == l <= Len(Traces[tid]) /\ Ok(Ev) /\ l' = l + 1 /\ UNCHANGED tid
Spec == Init /\ [][Next]_<<tid, l>>
Progress == TLCSet(tid, IF TLCGet(tid) < l THEN l ELSE TLCGet(tid))
Accepted == {t \in 1..Len(Traces) : TLCGet(t) # Len(Traces[t]) + 1 /\ PrintT(<<"REJECT", t, TLCGet(t)>>)} = {} \/ TRUE
====
