---------------------------- MODULE Trace_Runner ----------------------------
(***************************************************************************)
(* Trace validation of recorded worker runs (real Worker.run(), in-memory  *)
(* broker, one queue) against the implementation-shaped specification      *)
(* Runner.  checks/runner_traces.py projects a recorded run onto the       *)
(* events                                                                   *)
(*   cfg     tasks limit, messages limit, retries per message (first event) *)
(*   arrive  a message is enqueued                 -> Arrive               *)
(*   take    the worker's consumer took it          -> CL_TakeM (in-memory) *)
(*                                                     or C_FetchAny (the     *)
(*           background fetch of the Redis / RabbitMQ consumers)            *)
(*   got     consume() returned it to the runner    -> CL_Resume            *)
(*   xs/xe   the actor started / ended with outcome -> T_Start / T_End      *)
(*   report  ack / nack / requeue took effect        -> T_Report            *)
(*   giveback a reject took effect                   -> CL_Cancel with the  *)
(*           message in hand, CL_OverBudget, or T_Cancel                    *)
(*   stop    stop request                            -> StopRequest          *)
(*   fin     consumer finish() returned these ids    -> ConsFinish           *)
(*   ret     Worker.run() returned                   -> phase = "ret"        *)
(* The steps the recorder cannot see (waiting for a slot, spawning a task, *)
(* a done-callback, cancelling an idle consumer loop, the end of the       *)
(* graceful period, cancelling a task that no longer holds its message)    *)
(* are silent: at most MaxSilent of them between two events.  Every        *)
(* invariant of Runner is evaluated in every state of every trace.         *)
(***************************************************************************)
EXTENDS Runner, Json, IOUtils, TLCExt, SequencesExt

Traces == JsonDeserialize(IOEnv.TRACE_FILE)
MaxSilent == 8

VARIABLES tid, l, sl
tvars == <<tid, l, sl>>
Ev == Traces[tid][l]
Is(k) == l <= Len(Traces[tid]) /\ Ev.e = k
Step == l' = l + 1 /\ sl' = 0 /\ UNCHANGED tid

Cfg0(t) == Traces[t][1]
TInit == /\ tid \in 1..Len(Traces) /\ l = 2 /\ sl = 0
         /\ InitWith([tl |-> Cfg0(tid).tl, ml |-> Cfg0(tid).ml, nq |-> Cfg0(tid).nq,
                      maxr |-> [m \in Msgs |-> IF m <= Len(Cfg0(tid).maxr) THEN Cfg0(tid).maxr[m] ELSE 0],
                      qof |-> [m \in Msgs |-> IF m <= Len(Cfg0(tid).qof) THEN Cfg0(tid).qof[m] ELSE 1],
                      pf |-> Cfg0(tid).pf, fm |-> Cfg0(tid).fm], Msgs)
         /\ TLCSet(tid, 2)

QOf(m) == wc.qof[m]
TArrive == Is("arrive") /\ Arrive(Ev.i) /\ Step
TTake == Is("take") /\ (CL_TakeM(Ev.i) \/ C_FetchAny(Ev.i)) /\ Step
TGot == Is("got") /\ hand[QOf(Ev.i)] = Ev.i /\ CL_Resume(QOf(Ev.i)) /\ Step
TXs == Is("xs") /\ T_Start(Ev.i) /\ Step
TXe == Is("xe") /\ out[Ev.i] = Ev.out /\ T_End(Ev.i) /\ Step
TReport == /\ Is("report") /\ T_Report(Ev.i) /\ Step
           /\ CASE Ev.op = "ack" -> Ev.i \in acked'
                [] Ev.op = "nack" -> Ev.i \in dead'
                [] Ev.op = "requeue" -> InSeq(q'[QOf(Ev.i)], Ev.i)
TGiveback == /\ Is("giveback") /\ Step
             /\ \/ clm[QOf(Ev.i)] = Ev.i /\ CL_Cancel(QOf(Ev.i))
                \/ clm[QOf(Ev.i)] = Ev.i /\ CL_OverBudget(QOf(Ev.i))
                \/ Ev.i \in proc /\ T_Cancel(Ev.i)
TCBack == Is("cback") /\ C_ReturnM(Ev.i) /\ Step
TStop == Is("stop") /\ Step /\ (StopRequest \/ (stop /\ UNCHANGED vars))
TFin == /\ Is("fin") /\ ConsFinish(Ev.q) /\ Step
        /\ ToSet(Ev.ids) = (IF wc.fm = "taken" THEN OfQueue(proc, Ev.q) \ fetch[Ev.q] ELSE {lq[Ev.q][j] : j \in 1..Len(lq[Ev.q])})
TRet == Is("ret") /\ Step /\ (Return \/ (phase = "ret" /\ UNCHANGED vars))
Silent == /\ sl < MaxSilent /\ l <= Len(Traces[tid])
          /\ \/ FG
             \/ \E k \in Qs : CL_Wait(k) \/ CL_Spawn(k) \/ (clm[k] = None /\ CL_Cancel(k)) \/ C_Local(k) \/ CL_Get(k)
             \/ \E m \in Msgs : T_Callback(m) \/ (m \notin proc /\ T_Cancel(m))
          /\ sl' = sl + 1 /\ UNCHANGED <<tid, l>>

TNext == TCBack \/ TArrive \/ TTake \/ TGot \/ TXs \/ TXe \/ TReport \/ TGiveback \/ TStop \/ TFin \/ TRet \/ Silent
TSpec == TInit /\ [][TNext]_<<vars, tvars>>

(* a state in which an invariant of Runner fails is not a state of the specification: the trace stops being explained there *)
Sound == Conservation /\ SlotsSound /\ RunningBound /\ StartedBound /\ AtReturn /\ TriedBound /\ OwnQueue
Progress == Sound /\ TLCSet(tid, IF TLCGet(tid) < l THEN l ELSE TLCGet(tid))
Reach == TLCSet(tid, IF TLCGet(tid) < l THEN l ELSE TLCGet(tid))
ProgressOnly == Reach                                             \* actions only: is the run a behaviour of Runner at all?
ProgressC03 == Conservation /\ AtReturn /\ Reach
ProgressC03noAR == Conservation /\ Reach
ProgressC09 == RunningBound /\ SlotsSound /\ Reach
ProgressC10 == StartedBound /\ Reach
Accepted == {t \in 1..Len(Traces) : TLCGet(t) # Len(Traces[t]) + 1 /\ PrintT(<<"REJECT", t, TLCGet(t)>>)} = {} \/ TRUE
=============================================================================
