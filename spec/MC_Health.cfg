SPECIFICATION Spec
CONSTANT Conns = {1, 2}
INVARIANT OpenIffRunning
INVARIANT Truth
PROPERTY No200AfterFailure
