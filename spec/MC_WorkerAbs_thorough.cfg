SPECIFICATION FairSpec
CONSTANTS
  Msgs = {"a", "b", "c"}
  MaxRetries = 2
  TL = 2
  ML = 0
  Recurring = {"c"}
  MaxSched = 1
INVARIANT ExactlyOne
INVARIANT TriedBound
INVARIANT ChainLength
INVARIANT RunningBound
INVARIANT StartedBound
INVARIANT HeldIffBusy
INVARIANT AtReturn
PROPERTY TriedStep
PROPERTY Progress
