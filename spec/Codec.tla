-------------------------------- MODULE Codec --------------------------------
(***************************************************************************)
(* C07, structural half: names/ids as strings over symbol classes          *)
(*   L letter, D digit, U underscore, H hyphen, C colon, N newline, O other *)
(* The validators (VALID_NAME, VALID_ID) accept only strings without a     *)
(* colon, hence the Redis message names "m:<queue>:<prio>:<topic>:<id>"    *)
(* and the short names "<topic>:<id>" split back unambiguously, and the    *)
(* consumer's topic filter (prefix "<topic>:") selects exactly its topic.  *)
(***************************************************************************)
EXTENDS Integers, Sequences, SequencesExt, FiniteSets, TLC

Sym == {"L", "D", "U", "H", "C", "N", "O"}
ValidName(s) == /\ Len(s) >= 1 /\ s[1] \in {"L", "U"}
                /\ \A k \in 2..Len(s) : s[k] \in {"L", "D", "U", "H"}
ValidId(s) == Len(s) >= 1 /\ \A k \in 1..Len(s) : s[k] \in {"L", "D", "U", "H"}

(* split a string at every "C" *)
RECURSIVE Split(_)
Split(s) == IF \A k \in 1..Len(s) : s[k] # "C" THEN <<s>>
            ELSE LET p == CHOOSE k \in 1..Len(s) : s[k] = "C" /\ \A j \in 1..(k - 1) : s[j] # "C"
                 IN <<SubSeq(s, 1, p - 1)>> \o Split(SubSeq(s, p + 1, Len(s)))

Mnc(queue, prio, topic, id) == <<"L">> \o <<"C">> \o queue \o <<"C">> \o prio \o <<"C">> \o topic \o <<"C">> \o id
Short(topic, id) == topic \o <<"C">> \o id
ParseOk(queue, prio, topic, id) == Split(Mnc(queue, prio, topic, id)) = <<(<<"L">>), queue, prio, topic, id>>
ShortOk(topic, id) == Split(Short(topic, id)) = <<topic, id>>
IsPrefixOf(p, s) == Len(p) <= Len(s) /\ SubSeq(s, 1, Len(p)) = p
FilterOk(t1, i1, t2) == IsPrefixOf(t2 \o <<"C">>, Short(t1, i1)) <=> (t1 = t2)
=============================================================================
