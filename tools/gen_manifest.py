#!/venv/bin/python
"""Regenerates MANIFEST.json from the table below (one entry per claimed property)."""
import json
props = [json.loads(l) for l in open('/verif/properties.jsonl')]
FIXES = ["4919a31", "c4a424f", "4f698e4"]
BROKER_NOTE = ("Trusted: TLC, the virtual-time loop/clock rebinding, the recorder's projection of DummyQueue. "
               "In-memory broker only so far (Redis/RabbitMQ need the fake servers, see DESIGN 9).")
CLAIMS = {
 "C01": dict(text="BrokerAbs contract model-checked exhaustively (Conservation, OneHolder, action properties); every recorded client history on the real in-memory broker, incl. one re-run per (call, loop step) with task cancellation, must be a behaviour of the contract (each observed move of a message explained by exactly one contract action)", tech="TLA+ contract spec + TLC; trace validation of recorded executions (cancellation-point enumeration)", design="6/C01", note=BROKER_NOTE),
 "C05": dict(text="NeverEarly/OnlyViaDelayed as TLC action properties of BrokerAbs; recorded histories with delays around second/ms boundaries and a latency clause (a waiting consume() is not starved beyond the code's own polling bound) validated against the contract", tech="TLA+ contract spec + TLC; trace validation", design="6/C05", note=BROKER_NOTE),
 "C12": dict(text="NoExpiredDelivery/NotDroppedWhileLive as TLC action properties; recorded histories with TTLs and clock advances on both sides of the expiry validated against the contract's ttl clauses", tech="TLA+ contract spec + TLC; trace validation", design="6/C12", note=BROKER_NOTE),
 "C14": dict(text="OneHolder invariant of BrokerAbs; histories with several consumers per queue: a consume() may only return a message the contract says that consumer holds and has not been handed yet; finish() may only return the consumer's own messages", tech="TLA+ contract spec + TLC; trace validation", design="6/C14", note=BROKER_NOTE),
 "C15": dict(text="FIFO clause of the contract's Take guard (arrival order incl. returned messages) checked on single-consumer histories with distinguishable messages, topics and priorities", tech="TLA+ contract spec + TLC; trace validation", design="6/C15", note=BROKER_NOTE),
}
checks = []
for p in props:
    c = CLAIMS.get(p["id"])
    if not c:
        continue
    checks.append({
        "property_id": p["id"],
        "quick_cmd": f"./verif check {p['id']} --tier quick",
        "thorough_cmd": f"./verif check {p['id']} --tier thorough",
        "evidence_file": f"/verif/evidence/{p['id']}.json",
        "replay_cmd_template": "./verif replay {path}",
        "engine": "tlc+vloop-harness",
        "level_claimed": {"category": "model_checking", "text": c["text"], "design_ref": f"DESIGN.md section {c['design']}"},
        "level_note": c["note"],
        "technique": c["tech"],
    })
m = {
 "version": 1,
 "setup_cmd": "./verif setup",
 "hooks": {"guard": "REPID_VERIF", "enable": "none needed: all observation points are harness-side seams (instance-level wrappers, module globals); no source hooks in /repo",
           "baseline_off_cmd": "cd /repo && /venv/bin/python -m pytest -ra -q -p no:cacheprovider --timeout=900 --continue-on-collection-errors",
           "source_commits": [], "add_only": True},
 "engines": [
   {"name": "tlc", "path": "/opt/veriftools/tla/tla2tools.jar", "serves_properties": [c["property_id"] for c in checks], "kind_free_text": "explicit-state model checker for the TLA+ specs under /verif/spec; also validates recorded traces (Trace_*.tla)"},
   {"name": "vloop-harness", "path": "/verif/harness", "serves_properties": [c["property_id"] for c in checks], "kind_free_text": "deterministic virtual-time asyncio loop + recorder that turns executions of the real code into trace events"},
 ],
 "checks": checks,
 "notes": "fix: commits in /repo (genuine defects found by these checks): " + ", ".join(FIXES) + "; see known_findings.json and DESIGN.md section 7",
 "not_applicable": [{"property_id": p["id"], "reason": "check not built yet (work in progress, see DESIGN.md section 10)"} for p in props if p["id"] not in CLAIMS],
}
json.dump(m, open('/verif/MANIFEST.json', 'w'), indent=1)
print(len(checks), "claimed")
