#!/venv/bin/python
"""Regenerates MANIFEST.json from the table below (one entry per claimed property)."""
import json
props = [json.loads(l) for l in open('/verif/properties.jsonl')]
FIXES = ["4919a31", "c4a424f", "4f698e4", "b6107c4", "70a6e6e", "df2f96d", "2f83e4a", "b4ed670", "7ec8d12"]
BROKER_NOTE = ("Trusted: TLC, the virtual-time loop/clock rebinding, the recorder's projection of DummyQueue. "
               "In-memory broker only so far (Redis/RabbitMQ need the fake servers, see DESIGN 9).")
WORKER_NOTE = ("Trusted: TLC, virtual-time loop, recorder, scripted actors. In-memory broker; Redis/RabbitMQ not covered yet.")
CLAIMS = {
 "C01": dict(text="BrokerAbs contract model-checked exhaustively (Conservation, OneHolder, action properties); every recorded client history on the real in-memory broker, incl. one re-run per (call, loop step) with task cancellation, must be a behaviour of the contract (each observed move of a message explained by exactly one contract action)", tech="TLA+ contract spec + TLC; trace validation of recorded executions (cancellation-point enumeration)", design="6/C01", note=BROKER_NOTE),
 "C05": dict(text="NeverEarly/OnlyViaDelayed as TLC action properties of BrokerAbs; recorded histories with delays around second/ms boundaries and a latency clause (a waiting consume() is not starved beyond the code's own polling bound) validated against the contract", tech="TLA+ contract spec + TLC; trace validation", design="6/C05", note=BROKER_NOTE),
 "C12": dict(text="NoExpiredDelivery/NotDroppedWhileLive as TLC action properties; recorded histories with TTLs and clock advances on both sides of the expiry validated against the contract's ttl clauses", tech="TLA+ contract spec + TLC; trace validation", design="6/C12", note=BROKER_NOTE),
 "C14": dict(text="OneHolder invariant of BrokerAbs; histories with several consumers per queue: a consume() may only return a message the contract says that consumer holds and has not been handed yet; finish() may only return the consumer's own messages", tech="TLA+ contract spec + TLC; trace validation", design="6/C14", note=BROKER_NOTE),
 "C15": dict(text="FIFO clause of the contract's Take guard (arrival order incl. returned messages) checked on single-consumer histories with distinguishable messages, topics and priorities", tech="TLA+ contract spec + TLC; trace validation", design="6/C15", note=BROKER_NOTE),
 "C02": dict(text="WorkerAbs (abstract worker, TLC: ExactlyOne, TriedBound, ChainLength, ...) + every recorded run of the real Worker over the outcome x retry-state x recurrence x result cross product and concurrent mixes must be a behaviour of Trace_Worker: exactly one terminal broker action per delivery, the one the shared Disposition table prescribes, none after an eager response", tech="TLA+ worker model + TLC; trace validation of recorded Worker runs", design="6/C02", note=WORKER_NOTE),
 "C03": dict(text="every scenario re-run with the stop request injected at every loop step where something observable happens (+ samples of idle steps), graceful periods incl. 0: at return+quiescence nothing in flight, every taken message disposed or back in its queue, broker life cycle intact, run() back within grace+slack", tech="TLA+ worker model + TLC; crash-point enumeration + trace validation", design="6/C03", note=WORKER_NOTE + " Process death on Redis needs the fake server (not built yet)."),
 "C04": dict(text="retry clause of Trace_Worker on all failure patterns over N+1 attempts (exception/timeout), 4 policies, recurring or not, eager retry/force_retry: counter +1 per retry, <= max unless forced, reset per scheduling, back-off due >= failure time + policy(k) (delivery not before due is the broker contract's NeverEarly)", tech="TLA+ worker model + TLC; trace validation", design="6/C04", note=WORKER_NOTE),
 "C06": dict(text="recur clause: after each finished iteration exactly one successor (broker conservation), counter 0, ttl clock restarted, now < due' <= now+P, due' >= scheduled(prev)+P, over 4-6 iterations with varying lateness/duration/outcomes", tech="TLA+ worker model + TLC; trace validation", design="6/C06", note=WORKER_NOTE + " cron recurrence not exercised (croniter not installed)."),
 "C09": dict(text="limit clause (actor bodies in progress <= tasks_limit at every body start) and bounded-liveness clause (every job executed by a deadline derived from durations) on scenarios with 1-3 queues sharing the limiter, bursts, uneven durations, failing and self-cancelling actors", tech="TLA+ worker model + TLC (RunningBound, Progress under fairness); trace validation", design="6/C09", note=WORKER_NOTE),
 "C10": dict(text="mlimit clause: actor executions started <= messages_limit, run() returns by itself, messages beyond M back in their queue, over M x backlog x durations x tasks_limit x queues", tech="TLA+ worker model + TLC (StartedBound); trace validation", design="6/C10", note=WORKER_NOTE),
 "C08": dict(text="Bind.tla: binding of a payload to a signature as an operator; MC_Bind checks the statement's clauses on all well-formed signatures <= N parameters x payloads; for every such case the real converter (Basic, Pydantic, Default; one converter object per signature used for the whole payload sequence) + the real call is compared by TLC with Bind(sig, payload); TLC also checks that the harness enumerated exactly the specification's signature set", tech="TLA+ operator spec + TLC exhaustive enumeration; spec-vs-code case validation", design="6/C08", note="Exhaustive for <= 3 (quick) / <= 4 (thorough) parameters. Pydantic refuses *args/**kwargs at declaration (accepted outcome). Return-value round trip is sampled."),
 "C13": dict(text="result clause of Trace_Worker: a result-bucket write only when results are enabled, carrying the outcome of the execution that just finished (success flag, encoded value / exception text+type, start<=finish, ttl; compared by the recorder), the latest one at quiescence; fault enumeration: each result-bucket call failing in turn must leave the run a behaviour of the same specification (disposition unchanged, worker alive)", tech="TLA+ worker model + TLC; trace validation with fault enumeration", design="6/C13", note=WORKER_NOTE),
 "C16": dict(text="MessageApi.tla state machine (OneTerminal, AfterUse, StoreInOrder checked by TLC over all call sequences <= 4); every call sequence up to the bound executed on real Message objects obtained by iterating a queue in each category and on real MessageDependency objects inside actor_run, validated against Trace_MessageApi (refusals, broker calls, read-only flag, callback/result-store order, body stops)", tech="TLA+ state machine + TLC; exhaustive call-sequence trace validation", design="6/C16", note="Exhaustive for length <= 4 in the thorough tier; quick samples the longest sequences."),
 "C18": dict(text="Deps.tla: value term / failure of a provider graph after overrides; MC_Deps sanity theorems on all 4-node graphs; generated graphs built from real Depends objects (sync providers in the real thread pool), resolved through _Processor.actor_run, received values compared by TLC with Expected(graph, overrides, deps)", tech="TLA+ operator spec + TLC; spec-vs-code case validation", design="6/C18", note="Graphs <= 3 nodes exhaustive-sampled in quick, <= 4 in thorough; real threads only for sync providers (order-insensitive assertions)."),
 "C19": dict(text="Schedule.tla operators; TLC checks Monotone/InRange/OnGrid/Window/UntilWins/Overdue over the whole bounded domain, Apalache proves Window/OnGrid/Cadence for unbounded integers; every input of the domain evaluated on the real functions under a pinned clock (several unit scales, grid anchored at timestamp or at the scheduled time) and compared by TLC; large magnitudes sampled", tech="TLA+ operators + TLC exhaustive + Apalache (unbounded) ; spec-vs-code case validation", design="6/C19", note="The large-magnitude half (beyond 32-bit TLC integers) is sampling of the same formulas."),
 "C17": dict(text="Middleware.tla (TLC: OncePerOp, BeforePrecedesEffect, AfterIffSuccess, NestedSilent, RightConnection); complete job life cycles with every wrapped operation observed from outside (call/ret), inside (effect) and through a recording subscriber on all 26 signals, validated against Trace_Middleware (incl. two connections alive, argument names, mixed raising+slow subscribers); non-interference as a differential run (none vs ok/raising/slow/sync/mixed subscribers) on per-message call / move / execution streams and results", tech="TLA+ protocol spec + TLC; trace validation; differential runs", design="6/C17", note="In-memory brokers; sync subscribers (executor threads) take part in the differential comparison only."),
 "C20": dict(text="Health.tla (TLC: OpenIffRunning, No200AfterFailure); the real HealthCheckServer/_HttpServerProtocol inside real Worker runs on the virtual loop with a recording fake listening socket; hand-fed connections with byte strings of 8 request classes, valid requests split in two chunks, connections opened before / answered after an injected consumer failure, the same Worker run repeatedly; validated against Trace_Health (response code at response time, well-formed response, server still listening, jobs undisturbed)", tech="TLA+ spec + TLC; trace validation of hand-fed protocol runs", design="6/C20", note="No real socket: loop.create_server is a recording fake and asyncio's fatal-error handling of data_received is imitated (exception => connection dropped)."),
}
checks = []
for p in props:
    c = CLAIMS.get(p["id"])
    if not c:
        continue
    checks.append({
        "property_id": p["id"],
        "quick_cmd": f"./verif check {p['id']} --tier quick",
        "thorough_cmd": f"./verif check {p['id']} --tier thorough",
        "evidence_file": f"/verif/evidence/{p['id']}.json",
        "replay_cmd_template": "./verif replay {path}",
        "engine": "tlc+vloop-harness",
        "level_claimed": {"category": "model_checking", "text": c["text"], "design_ref": f"DESIGN.md section {c['design']}"},
        "level_note": c["note"],
        "technique": c["tech"],
    })
m = {
 "version": 1,
 "setup_cmd": "./verif setup",
 "hooks": {"guard": "REPID_VERIF", "enable": "none needed: all observation points are harness-side seams (instance-level wrappers, module globals); no source hooks in /repo",
           "baseline_off_cmd": "cd /repo && /venv/bin/python -m pytest -ra -q -p no:cacheprovider --timeout=900 --continue-on-collection-errors",
           "source_commits": [], "add_only": True},
 "engines": [
   {"name": "tlc", "path": "/opt/veriftools/tla/tla2tools.jar", "serves_properties": [c["property_id"] for c in checks], "kind_free_text": "explicit-state model checker for the TLA+ specs under /verif/spec; also validates recorded traces (Trace_*.tla)"},
   {"name": "vloop-harness", "path": "/verif/harness", "serves_properties": [c["property_id"] for c in checks], "kind_free_text": "deterministic virtual-time asyncio loop + recorder that turns executions of the real code into trace events"},
 ],
 "checks": checks,
 "notes": "fix: commits in /repo (genuine defects found by these checks): " + ", ".join(FIXES) + "; see known_findings.json and DESIGN.md section 7",
 "not_applicable": [{"property_id": p["id"], "reason": "check not built yet (work in progress, see DESIGN.md section 10)"} for p in props if p["id"] not in CLAIMS],
}
json.dump(m, open('/verif/MANIFEST.json', 'w'), indent=1)
print(len(checks), "claimed")
