#!/bin/bash
# Runs, for every seeded change, the quick check of the property it was written against (plus extra checks given in
# seeded/_extra_checks) with the change applied to /repo, and undoes it.  Output: seeded/_source/detect.log
OUT=/verif/seeded/_source/detect.log
: > $OUT
cd /repo || exit 2
git diff --quiet || { echo "repo dirty" >> $OUT; exit 2; }
for d in /verif/seeded/_source/C*/; do for v in a b; do
  dir=$d$v; pid=$(basename $d); id=$pid/$v
  patch=$dir/patch.rebased.diff; [ -f $patch ] || patch=$dir/patch.diff
  if ! git -C /repo apply --check $patch 2>/dev/null; then echo "$id APPLY-FAIL" >> $OUT; continue; fi
  git -C /repo apply $patch
  extra=$(grep "^$id " /verif/seeded/_extra_checks 2>/dev/null | cut -d' ' -f2-)
  for p in $pid $extra; do
    out=$(cd /verif && timeout 1500 ./verif check $p --tier quick 2>&1); rc=$?
    first=$(echo "$out" | grep -E "VIOLATION|MACHINERY" | head -1 | cut -c1-260)
    drift=$(echo "$out" | grep -c "drift item")
    echo "$id check=$p rc=$rc drift=$drift :: $first" >> $OUT
  done
  git -C /repo reset -q --hard HEAD
done; done
echo DONE >> $OUT
