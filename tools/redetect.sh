#!/bin/bash
# usage: tools/redetect.sh C12/a C12 [C04 ...]  -> appends to seeded/_source/detect.log (later lines win)
id=$1; shift
dir=/verif/seeded/_source/$id
patch=$dir/patch.rebased.diff; [ -f $patch ] || patch=$dir/patch.diff
cd /repo && git diff --quiet || { echo dirty; exit 2; }
git apply $patch || exit 3
for p in "$@"; do
  out=$(cd /verif && timeout 1500 ./verif check $p --tier quick 2>&1); rc=$?
  first=$(echo "$out" | grep -E "VIOLATION|MACHINERY" | head -1 | cut -c1-260)
  drift=$(echo "$out" | grep -c "drift item")
  echo "$id check=$p rc=$rc drift=$drift :: $first" | tee -a /verif/seeded/_source/detect.log | cut -c1-120
done
git -C /repo reset -q --hard HEAD
