#!/bin/bash
# Detection sweep over every seeded change, in scratch worktrees (tools/seedtest.sh), N at a time.
# usage: tools/detect_all.sh [N] [dir-glob]     -> seeded/_source/detect.log (format read by tools/finish_seeds.py)
N=${1:-2}; GLOB=${2:-/verif/seeded/C??-?}
OUT=/verif/seeded/_source/detect.log
[ -n "$2" ] || : > $OUT
one() {
  d=$1; name=$(basename $d); pid=${name%-*}; v=${name#*-}; id=$pid/$v
  extra=$(grep "^$id " /verif/seeded/_extra_checks 2>/dev/null | cut -d' ' -f2-)
  for p in $pid $extra; do
    out=$(SEEDTEST_LINES=1 /verif/tools/seedtest.sh $d/patch.diff $p 2>&1)
    rc=$(echo "$out" | grep -o "rc=[0-9]*" | head -1); first=$(echo "$out" | grep -E "VIOLATION|MACHINERY|DOES NOT APPLY" | head -1 | cut -c1-260)
    drift=$(echo "$out" | grep -c "drift item")
    echo "$id check=$p $rc drift=$drift :: $first" >> /verif/seeded/_source/detect.log
  done
}
export -f one
ls -d $GLOB | xargs -P $N -I{} bash -c 'one {}'
echo DONE >> $OUT
