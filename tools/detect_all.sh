#!/bin/bash
# Detection sweep over every seeded change (seeded/_source/Cxx/<a-d>), each tried out in a scratch worktree (tools/seedtest.sh),
# N at a time: the quick check of the property it was written against + the extra checks listed in seeded/_extra_checks.
# usage: tools/detect_all.sh [N] [glob under seeded/_source, default 'C??/[a-h]']   -> seeded/_source/detect.log (read by tools/finish_seeds.py)
N=${1:-3}; GLOB=${2:-C??/[a-h]}
OUT=/verif/seeded/_source/detect.log
[ -n "$2" ] || : > $OUT
one() {
  dir=$1; v=$(basename $dir); pid=$(basename $(dirname $dir)); id=$pid/$v
  patch=$dir/patch.rebased.diff; [ -f $patch ] || patch=$dir/patch.diff
  extra=$(grep "^$id " /verif/seeded/_extra_checks 2>/dev/null | cut -d' ' -f2-)
  for p in $pid $extra; do
    out=$(SEEDTEST_LINES=1 /verif/tools/seedtest.sh $patch $p 2>&1)
    rc=$(echo "$out" | grep -o "rc=[0-9]*" | head -1); first=$(echo "$out" | grep -E "VIOLATION|MACHINERY|DOES NOT APPLY" | head -1 | cut -c1-260)
    drift=$(echo "$out" | grep -c "drift item")
    echo "$id check=$p $rc drift=$drift :: $first" >> /verif/seeded/_source/detect.log
  done
}
export -f one
ls -d /verif/seeded/_source/$GLOB | xargs -P $N -I{} bash -c 'one {}'
echo DONE >> $OUT
