#!/bin/bash
# usage: tools/tlcrun.sh <Module> <cfg> [extra tlc args...]   -- runs TLC in a private scratch copy of spec/
d=$(mktemp -d /tmp/tlcrun.XXXXXX)
cp /verif/spec/*.tla "/verif/spec/$2" "$d"/
cd "$d"
m=$1; c=$2; shift 2
timeout ${TLC_TIMEOUT:-900} java -XX:+UseParallelGC -Xss16m -cp /opt/veriftools/tla/tla2tools.jar:/opt/veriftools/tla/CommunityModules-deps.jar tlc2.TLC -workers ${TLC_WORKERS:-12} -metadir "$d/m" -noGenerateSpecTE -config "$c" "$@" "$m.tla" 2>&1
rc=$?
rm -rf "$d"
exit $rc
