#!/bin/bash
# Detection sweep over a LIST of seeded changes (ids like C05/g), N at a time; appends to seeded/_source/detect.log (later lines win).
# usage: tools/detect_list.sh N id [id ...]
N=$1; shift
one() {
  id=$1; dir=/verif/seeded/_source/$id; pid=${id%%/*}
  patch=$dir/patch.rebased.diff; [ -f $patch ] || patch=$dir/patch.diff
  extra=$(grep "^$id " /verif/seeded/_extra_checks 2>/dev/null | cut -d' ' -f2-)
  for p in $pid $extra; do
    out=$(SEEDTEST_LINES=1 /verif/tools/seedtest.sh $patch $p 2>&1)
    rc=$(echo "$out" | grep -o "rc=[0-9]*" | head -1); first=$(echo "$out" | grep -E "VIOLATION|MACHINERY|DOES NOT APPLY" | head -1 | cut -c1-260)
    drift=$(echo "$out" | grep -c "drift item")
    echo "$id check=$p $rc drift=$drift :: $first" >> /verif/seeded/_source/detect.log
    [ "$rc" = "rc=1" ] && break
  done
}
export -f one
printf '%s\n' "$@" | xargs -P $N -I{} bash -c 'one {}'
echo DONE >> /verif/seeded/_source/detect.log
