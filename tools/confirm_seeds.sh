#!/bin/bash
# Confirms every seeded change in a scratch worktree: patch applies, demo passes before / fails after, suite passes with it.
# usage: tools/confirm_seeds.sh ["a b" | "c d"] [Cxx-glob]   (appends to seeded/_source/confirm.log; later lines win)
VARIANTS=${1:-a b}; GLOB=${2:-C*}
WT=/tmp/confirm_wt_$$
OUT=/verif/seeded/_source/confirm.log
git -C /repo worktree remove --force $WT 2>/dev/null; git -C /repo worktree prune
git -C /repo worktree add -q --detach $WT HEAD || exit 2
for d in /verif/seeded/_source/$GLOB/; do for v in $VARIANTS; do
  [ -d $d$v ] || continue
  dir=$d$v; id=$(basename $d)/$v
  patch=$dir/patch.rebased.diff; [ -f $patch ] || patch=$dir/patch.diff
  demo=$dir/demo.rebased.py; [ -f $demo ] || demo=$dir/demo.py; [ -f $demo ] || demo=$dir/test_demo.py
  cd $WT && git checkout -q -- . && git clean -fdq
  if ! git apply --check $patch 2>/dev/null; then echo "$id APPLY-FAIL" >> $OUT; continue; fi
  PYTHONPATH=$WT timeout 300 /venv/bin/python $demo > /tmp/confirm_demo.out 2>&1; before=$?
  git apply $patch
  PYTHONPATH=$WT timeout 300 /venv/bin/python $demo > /tmp/confirm_demo2.out 2>&1; after=$?
  # (private network namespace: two health-check tests bind the fixed port 8080, other runs on this machine may hold it)
  suite=$(unshare -rn sh -c "ip link set lo up; PYTHONPATH=$WT timeout 900 /venv/bin/python -m pytest -q -p no:cacheprovider --timeout=900 --ignore=tests/integration --deselect tests/test_hypothesis.py::test_job_creation 2>&1 | tail -1")
  echo "$id patch=$(basename $patch) demo_before=$before demo_after=$after suite=[$suite]" >> $OUT
  git checkout -q -- . && git clean -fdq
done; done
cd /; git -C /repo worktree remove --force $WT; git -C /repo worktree prune
echo DONE >> $OUT
