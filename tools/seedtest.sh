#!/bin/bash
# usage: tools/seedtest.sh <patch.diff> <Cxx> [<Cyy> ...]
# Tries a seeded change out WITHOUT touching /repo: a scratch git worktree of /repo's HEAD under /tmp gets the patch,
# the quick checks run against it (VERIF_REPO), the worktree is removed.  Evidence / replay files of such runs go to
# $VERIF_SCRATCH_OUT (default /tmp/verif-scratch-out/<pid of this script>), not into /verif.
patch="$(readlink -f "$1")"; shift
wt=/tmp/seedwt-$$
git -C /repo worktree add -q --detach $wt HEAD || exit 2
trap 'git -C /repo worktree remove --force $wt 2>/dev/null; rm -rf /tmp/verif-scratch-out/$$' EXIT
if ! git -C $wt apply --check "$patch" 2>/dev/null; then echo "PATCH DOES NOT APPLY (needs rebase): $patch"; exit 3; fi
git -C $wt apply "$patch"
export VERIF_REPO=$wt VERIF_SCRATCH_OUT=/tmp/verif-scratch-out/$$
for p in "$@"; do
  out=$(cd /verif && timeout 1500 ./verif check "$p" --tier quick 2>&1); rc=$?
  echo "== $patch :: $p -> rc=$rc"; echo "$out" | grep -E "VIOLATION|MACHINERY|drift" | head -${SEEDTEST_LINES:-3} | cut -c1-300
done
