#!/bin/bash
# usage: tools/seedtest.sh <patch.diff> <Cxx> [<Cyy> ...]   -- apply a seeded change to /repo, run checks, undo
patch="$1"; shift
cd /repo || exit 2
if ! git diff --quiet; then echo "repo dirty"; exit 2; fi
if ! git apply --check "$patch" 2>/dev/null; then echo "PATCH DOES NOT APPLY (needs rebase): $patch"; exit 3; fi
git apply "$patch"
for p in "$@"; do
  out=$(cd /verif && ./verif check "$p" --tier quick 2>&1); rc=$?
  echo "== $patch :: $p -> rc=$rc"; echo "$out" | grep -E "VIOLATION|KNOWN-FINDING|MACHINERY|drift" | head -5
done
git reset -q --hard HEAD; git status --short | head -3
