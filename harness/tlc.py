"""TLC glue: run model checking / simulation under a timeout in a private scratch dir, parse
state/transition/coverage counts, run batched trace validation (DESIGN.md section 4, A.1)."""
from __future__ import annotations

import json
import os
import re
import shutil
import subprocess
import tempfile
import time
from dataclasses import dataclass, field
from pathlib import Path

ROOT = Path(__file__).resolve().parent.parent
SPEC = ROOT / "spec"
WORK = ROOT / ".work"
JAR = "/opt/veriftools/tla/tla2tools.jar:/opt/veriftools/tla/CommunityModules-deps.jar"


class MachineryError(RuntimeError):
    """TLC crashed, spec does not parse, etc.  Exit code 2 at the CLI."""


@dataclass
class TLCResult:
    ok: bool                      # no invariant/property violation, no error
    generated: int = 0            # states generated (= transitions examined)
    distinct: int = 0
    depth: int = 0
    violated: str | None = None   # name of violated invariant / property
    trace: list = field(default_factory=list)  # counterexample [(action, state-text)]
    coverage: dict = field(default_factory=dict)  # action -> (distinct, total)
    prints: list = field(default_factory=list)    # PrintT output lines (raw)
    wall_s: float = 0.0
    cmd: str = ""
    out: str = ""


def scratch(prefix: str = "t") -> Path:
    WORK.mkdir(exist_ok=True)
    return Path(tempfile.mkdtemp(prefix=f"{prefix}-{os.getpid()}-", dir=WORK))


_RE_GEN = re.compile(r"(\d+) states generated, (\d+) distinct states found")
_RE_DEPTH = re.compile(r"The depth of the complete state graph search is (\d+)")
_RE_VIOL_INV = re.compile(r"Error: Invariant (\S+) is violated")
_RE_VIOL_PROP = re.compile(r"Error: (?:Action|Temporal) propert(?:y|ies) (\S*) ?(?:is|were) violated")
_RE_COV = re.compile(r"^<(\w+) line \d+, col \d+ to line \d+, col \d+ of module (\w+)>: (\d+):(\d+)", re.M)
_RE_STATE = re.compile(r"^State (\d+): <?([^>\n]*)>?\s*$", re.M)


def run_tlc(
    module: str,
    cfg: str,
    *,
    workers: int | str = 16,
    timeout: int = 600,
    simulate: str | None = None,
    depth: int | None = None,
    env: dict | None = None,
    extra: list[str] | None = None,
    coverage: bool = False,
    files: list[Path] | None = None,
    keep: bool = False,
    deadlock: bool = False,
    seed: int | None = None,
) -> TLCResult:
    """Run TLC on spec/<module>.tla with spec/<cfg> in a scratch copy of the spec directory."""
    d = scratch(module)
    try:
        for f in SPEC.glob("*.tla"):
            shutil.copy(f, d / f.name)
        shutil.copy(SPEC / cfg, d / cfg)
        for f in files or []:
            shutil.copy(f, d / Path(f).name)
        cmd = [
            "java", "-XX:+UseParallelGC", "-Xss16m", "-cp", JAR, "tlc2.TLC",
            "-workers", str(workers), "-metadir", str(d / "states"), "-noGenerateSpecTE",
            "-config", cfg,
        ]
        if not deadlock:
            cmd += ["-deadlock"]
        if coverage:
            cmd += ["-coverage", "1"]
        if simulate is not None:
            cmd += ["-simulate", simulate]
        if depth is not None:
            cmd += ["-depth", str(depth)]
        if seed is not None:
            cmd += ["-seed", str(seed)]
        cmd += (extra or []) + [f"{module}.tla"]
        e = dict(os.environ)
        e.update({k: str(v) for k, v in (env or {}).items()})
        t0 = time.time()
        try:
            p = subprocess.run(cmd, cwd=d, env=e, capture_output=True, text=True, timeout=timeout)
            out = p.stdout + p.stderr
            rc = p.returncode
        except subprocess.TimeoutExpired as ex:
            out = (ex.stdout or b"").decode() if isinstance(ex.stdout, bytes) else (ex.stdout or "")
            rc = -9
        res = TLCResult(ok=False, wall_s=time.time() - t0, cmd=" ".join(cmd[5:]), out=out)
        for m in _RE_GEN.finditer(out):
            res.generated, res.distinct = int(m.group(1)), int(m.group(2))
        m = _RE_DEPTH.search(out)
        if m:
            res.depth = int(m.group(1))
        for m in _RE_COV.finditer(out):
            res.coverage[m.group(1)] = (int(m.group(3)), int(m.group(4)))
        m = _RE_VIOL_INV.search(out) or _RE_VIOL_PROP.search(out)
        if m:
            res.violated = m.group(1) or "property"
        if "is violated" in out and res.violated is None:
            res.violated = "unknown"
        res.prints = [ln for ln in out.splitlines() if ln.startswith(("<<", "\"", "["))]
        if res.violated:
            res.trace = _parse_trace(out)
        finished = "Model checking completed" in out or "Finished in" in out
        if simulate is not None and rc in (-9, 0) and not res.violated:
            finished = True
        hard_error = (
            ("Error:" in out and not res.violated and "Deadlock" not in out)
            or "Parsing or semantic analysis failed" in out
            or "Exception" in out and "TLCRuntimeException" not in out and not res.violated and not finished
        )
        if hard_error or (rc == -9 and simulate is None):
            if keep:
                raise MachineryError(f"TLC failed on {module}/{cfg} (rc={rc}); scratch kept at {d}\n{out[-3000:]}")
            raise MachineryError(f"TLC failed on {module}/{cfg} (rc={rc})\n{out[-3000:]}")
        res.ok = res.violated is None and finished
        return res
    finally:
        if not keep:
            shutil.rmtree(d, ignore_errors=True)


def _parse_trace(out: str) -> list:
    """Counterexample as [(action-name-with-params, {var: text})]."""
    states = []
    parts = re.split(r"^State (\d+): ", out, flags=re.M)
    # parts = [pre, n1, body1, n2, body2, ...]
    for k in range(1, len(parts) - 1, 2):
        body = parts[k + 1]
        head, _, rest = body.partition("\n")
        act = head.strip().strip("<>")
        act = re.sub(r" line \d+, col \d+ to line \d+, col \d+ of module \w+", "", act)
        vars_ = {}
        cur = None
        for ln in rest.splitlines():
            if ln.startswith("/\\ "):
                name, _, val = ln[3:].partition(" = ")
                cur = name.strip()
                vars_[cur] = val
            elif ln.strip() == "" or ln.startswith(("Error", "Finished", "State", "Back to", "The ")) or re.match(r"^\d+ states", ln):
                if ln.strip() == "":
                    cur = None
                else:
                    break
            elif cur is not None:
                vars_[cur] += "\n" + ln
        states.append((act, vars_))
    return states


# ---------------------------------------------------------------------------------------------
# Batched trace validation
# ---------------------------------------------------------------------------------------------

@dataclass
class TraceVerdict:
    accepted: list            # indices (0-based) of accepted traces
    rejected: dict            # index -> furthest event position reached (1-based position of first unmatched event)
    result: TLCResult


def _validate_chunk(module, cfg, part, env, timeout, extra_files):
    d = scratch("tr")
    try:
        tf = d / "traces.json"
        tf.write_text(json.dumps(part))
        e = dict(env or {})
        e["TRACE_FILE"] = str(tf)
        r = run_tlc(module, cfg, workers=1, timeout=timeout, env=e, files=extra_files)
        rej = {}
        for m in re.finditer(r'<<"REJECT", (\d+), (\d+)>>', r.out):
            rej[int(m.group(1)) - 1] = int(m.group(2))
        if r.violated:
            m = re.search(r"Error:.*?(?=<<\"REJECT|\Z)", r.out, flags=re.S)
            raise MachineryError("trace validation hit an invariant/property/evaluation error instead of finishing\n"
                                 + (m.group(0)[:3000] if m else r.out[-2000:]))
        if "Model checking completed" not in r.out:
            raise MachineryError("trace validation did not complete\n" + r.out[-2000:])
        return rej, r
    finally:
        shutil.rmtree(d, ignore_errors=True)


def validate_traces(module: str, cfg: str, traces: list, *, env: dict | None = None, timeout: int = 1800,
                    chunk: int = 1500, extra_files: list[Path] | None = None, parallel: int = 8) -> TraceVerdict:
    """Validate many recorded traces against a trace spec in few JVM invocations.  The trace spec
    reads ``IOEnv.TRACE_FILE`` (a JSON array of traces, each a JSON array of event records),
    chooses ``tid`` in Init, keeps the furthest position reached per trace in TLC register tid,
    and its POSTCONDITION prints ``<<"REJECT", tid, l>>`` for each trace not consumed to its end
    (l = 1-based position of the first event that no action of the specification explains)."""
    from concurrent.futures import ThreadPoolExecutor
    accepted, rejected = [], {}
    total = TLCResult(ok=True)
    if not traces:
        return TraceVerdict([], {}, total)
    bases = list(range(0, len(traces), chunk))
    with ThreadPoolExecutor(max_workers=parallel) as ex:
        futs = [ex.submit(_validate_chunk, module, cfg, traces[b:b + chunk], env, timeout, extra_files) for b in bases]
        for b, f in zip(bases, futs):
            rej, r = f.result()
            total.generated += r.generated
            total.distinct += r.distinct
            total.wall_s += r.wall_s
            total.cmd = r.cmd
            total.depth = max(total.depth, r.depth)
            for k in range(len(traces[b:b + chunk])):
                if k in rej:
                    rejected[b + k] = rej[k]
                else:
                    accepted.append(b + k)
    return TraceVerdict(accepted, rejected, total)


def sany(module: str) -> None:
    d = scratch("sany")
    try:
        for f in SPEC.glob("*.tla"):
            shutil.copy(f, d / f.name)
        p = subprocess.run(["java", "-cp", JAR, "tla2sany.SANY", f"{module}.tla"], cwd=d,
                           capture_output=True, text=True, timeout=120)
        if p.returncode != 0 or "error" in p.stdout.lower().replace("0 error", ""):
            raise MachineryError(f"SANY failed on {module}:\n{p.stdout[-2000:]}")
    finally:
        shutil.rmtree(d, ignore_errors=True)
