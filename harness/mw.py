"""Instrumentation for C17: observes every wrapped operation from outside the middleware wrapper
(call / ret), from inside it (eff / done: the wrapped function itself), and through a recording
subscriber for every signal (sig)."""
from __future__ import annotations

import contextvars
import inspect

DEPTH: contextvars.ContextVar = contextvars.ContextVar("verif_mw_depth", default=0)
CUR: contextvars.ContextVar = contextvars.ContextVar("verif_mw_cur", default=0)


class MwLog:
    def __init__(self) -> None:
        self.events: list[dict] = []
        self.n = 0
        self.conn_of: dict[int, int] = {}   # id(connection object) -> tag

    def new(self) -> int:
        self.n += 1
        return self.n


class Outer:
    """replaces the attribute holding a _middleware_wrapper; forwards the emitter attribute"""

    def __init__(self, log: MwLog, mw, conn_tag, name=None, conn_from_args=None):
        self.log, self.mw, self.conn_tag = log, mw, conn_tag
        self.__name__ = name or mw.name
        self.conn_from_args = conn_from_args
        self.sig = inspect.signature(mw.fn)
        if not getattr(mw.fn, "_verif_inner", False):
            orig = mw.fn
            log_ = log

            async def inner(*a, **k):
                kid = CUR.get()
                log_.events.append({"e": "eff", "k": kid})
                tok = DEPTH.set(DEPTH.get() + 1)
                try:
                    r = await orig(*a, **k)
                except BaseException:
                    log_.events.append({"e": "done", "k": kid, "ok": False})
                    raise
                finally:
                    DEPTH.reset(tok)
                log_.events.append({"e": "done", "k": kid, "ok": True})
                return r
            inner._verif_inner = True
            inner.__name__ = getattr(orig, "__name__", "fn")
            mw.fn = inner

    @property
    def _repid_signal_emitter(self):
        return self.mw._repid_signal_emitter

    @_repid_signal_emitter.setter
    def _repid_signal_emitter(self, v):
        self.mw._repid_signal_emitter = v

    async def __call__(self, *a, **k):
        kid = self.log.new()
        keys = list(k.keys()) + [p for p, _ in zip(self.mw.parameters, a)]
        conn = self.conn_tag
        if self.conn_from_args is not None:
            conn = self.log.conn_of.get(id(self.conn_from_args(a, k)), 0)
        self.log.events.append({"e": "call", "k": kid, "name": self.mw.name, "conn": conn,
                                "nested": DEPTH.get() > 0, "keys": sorted(keys)})
        tok = CUR.set(kid)
        try:
            r = await self.mw(*a, **k)
        except BaseException:
            self.log.events.append({"e": "ret", "k": kid, "ok": False})
            raise
        finally:
            CUR.reset(tok)
        self.log.events.append({"e": "ret", "k": kid, "ok": True})
        return r


ALL_NAMES = ["key", "payload", "params", "queue_name", "id_", "result", "actor", "parameters", "connection"]
_MISSING = object()


def recording_middleware(log: MwLog, conn_tag: int, behaviour: str = "ok"):
    """an object with one subscriber per signal; each logs the signal with the argument names it got"""
    import asyncio
    from repid.middlewares import SUBSCRIBERS_NAMES

    class M:
        pass
    m = M()
    for name in sorted(SUBSCRIBERS_NAMES):
        def mk(name=name):
            def record(**kw):
                kind, _, op = name.partition("_")
                got = {k: v for k, v in kw.items() if v is not _MISSING}
                log.events.append({"e": "sig", "kind": kind, "name": op, "conn": conn_tag, "k": CUR.get(),
                                   "keys": sorted(got), "resok": True})
            if behaviour == "greedy":
                # asks for every argument any signal can carry, and one that none carries, all without defaults: the
                # middleware cannot call it -- which is the subscriber's problem, not the operation's
                async def sub(key, payload, params, queue_name, id_, result, actor, parameters, connection, no_such_argument):
                    record(key=key)
            elif behaviour == "sync":
                def sub(key=_MISSING, payload=_MISSING, params=_MISSING, queue_name=_MISSING, id_=_MISSING, result=_MISSING,
                        actor=_MISSING, parameters=_MISSING, connection=_MISSING):
                    record(key=key, payload=payload, params=params, queue_name=queue_name, id_=id_, result=result,
                           actor=actor, parameters=parameters, connection=connection)
            else:
                async def sub(key=_MISSING, payload=_MISSING, params=_MISSING, queue_name=_MISSING, id_=_MISSING, result=_MISSING,
                              actor=_MISSING, parameters=_MISSING, connection=_MISSING):
                    if behaviour == "slow":     # a slow subscriber is recorded when it *completes*:
                        await asyncio.sleep(0.05)   # the operation must not take effect before that
                    if behaviour != "raise_only":
                        record(key=key, payload=payload, params=params, queue_name=queue_name, id_=id_, result=result,
                               actor=actor, parameters=parameters, connection=connection)
                    if behaviour in ("raise", "raise_only"):
                        raise RuntimeError("subscriber failure (injected)")
            sub.__name__ = name
            return sub
        setattr(m, name, mk())
    return m


def instrument_connection(log: MwLog, conn, tag: int) -> None:
    log.conn_of[id(conn)] = tag
    for b in (conn.message_broker, conn.args_bucket_broker, conn.results_bucket_broker):
        if b is None:
            continue
        for meth in b.__WRAPPED_METHODS__:
            mw = getattr(b, meth)
            if isinstance(mw, Outer):
                continue
            setattr(b, meth, Outer(log, mw, tag))
    mb = conn.message_broker
    orig_get = mb.get_consumer

    def get_consumer(*a, **k):
        c = orig_get(*a, **k)
        for meth in c.__WRAPPED_METHODS__:
            mw = getattr(c, meth)
            if not isinstance(mw, Outer):
                setattr(c, meth, Outer(log, mw, tag))
        return c
    mb.get_consumer = get_consumer


def instrument_actor_run(log: MwLog):
    """class-level wrapper shared by all processors; returns an undo function"""
    from repid._processor import _Processor
    desc = _Processor.__dict__["actor_run"]
    mw = desc.__func__ if isinstance(desc, staticmethod) else desc
    if isinstance(mw, Outer):
        return lambda: None
    orig_fn = mw.fn
    outer = Outer(log, mw, 0, conn_from_args=lambda a, k: k.get("connection", a[4] if len(a) > 4 else None))
    _Processor.actor_run = staticmethod(outer)

    def undo():
        _Processor.actor_run = desc
        mw.fn = orig_fn
    return undo
