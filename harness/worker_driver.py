"""Worker scenario driver: runs the real repid Worker on the virtual loop against a real
(in-memory by default) broker, with scripted actor behaviour per attempt, arrival scripts, and a
stop request / forced cancellation injected at a chosen loop step or instant.  Produces the event
vocabulary of Trace_Worker (broker events + xs/xe/bs/be/stop/forced/rend/quiet/late)."""
from __future__ import annotations

import asyncio
import json
import logging
from datetime import timedelta
from typing import Annotated, Any

from . import vloop
from .record import Recorder, inmem_projector, inmem_signature
from .vloop import CLOCK, CURRENT_CALL

logging.getLogger("repid").setLevel(100)

import contextvars

WNO: contextvars.ContextVar = contextvars.ContextVar("verif_worker_no", default=0)
SLACK_US = int((5.0 + 1.0 + 1.0) * 1e6)   # consumer finish timeout + health server timeout + 1 s


class _OddError(Exception):
    """an exception with its own idea of its text"""

    def __init__(self, jid):
        super().__init__("ignored", jid)
        self.jid = jid

    def __str__(self):
        return f"odd error for {self.jid}"


def default_scenario(**kw) -> dict:
    sc = {
        "jobs": [], "actors": {"job": {"queue": "default", "policy": ["const", 0], "variant": "plain"}},
        "worker": {"tasks_limit": 1000, "messages_limit": 0, "grace_s": 1.0},
        "stop": None, "deadline_ms": None, "horizon_ms": 60_000, "results": False, "converter": "basic",
        "store_fail_at": None,
    }
    sc.update(kw)
    return sc


def make_policy(spec):
    kind = spec[0]
    if kind == "const":
        return lambda retry_number=1: timedelta(milliseconds=spec[1])
    if kind == "linear":
        return lambda retry_number=1: timedelta(milliseconds=spec[1] * retry_number)
    if kind == "default":
        from repid.retry_policy import default_retry_policy_factory
        return default_retry_policy_factory(*spec[1:])
    raise ValueError(kind)


class WorkerRecorder(Recorder):
    def __init__(self, **kw) -> None:
        super().__init__(**kw)
        self.last_params: dict[int, Any] = {}
        self.in_body: dict[int, int] = {}
        self.policy_of = None       # topic -> policy
        self.worker_no = 0          # consumers created while >0 belong to that worker
        self.first_exec_us: dict[int, int] = {}
        self.exec_count: dict[int, int] = {}
        self.exec_log: list = []

    def cons_extra(self) -> dict:
        return {"w": WNO.get() or self.worker_no}

    def consume_extra(self, i, key, payload, params) -> dict:
        self.last_params[i] = params
        due = params.delay.next_execution_time
        return {"p": {"tried": params.retries.already_tried, "max": params.retries.max_amount,
                      "rec": params.delay.defer_by is not None or params.delay.cron is not None,
                      "res": params.result is not None,
                      "due": ("ms", vloop.us_of(due)) if due is not None else 0}}

    def meta(self, key, payload, params) -> dict:
        m = super().meta(key, payload, params)
        i = self.mid(key.id_)
        old = self.last_params.get(i)
        m.update({"tried": params.retries.already_tried, "forced": 0, "bo": 0, "oldexp": 0, "nowP": 0, "schedP": 0,
                  "ts": ("us", vloop.us_of(params.timestamp))})
        if old is not None:
            m["forced"] = int(params.retries.already_tried > old.retries.max_amount)
            if old.ttl is not None:
                m["oldexp"] = ("us", vloop.us_of(old.timestamp + old.ttl))
            if self.policy_of is not None and not self.in_body.get(i):
                try:
                    bo = self.policy_of(key.topic)(old.retries.already_tried + 1)
                    m["bo"] = ("ms", CLOCK.us + int(bo.total_seconds() * 1e6))
                except Exception:  # noqa: BLE001
                    pass
            if old.delay.defer_by is not None:
                p_us = int(old.delay.defer_by.total_seconds() * 1e6)
                m["nowP"] = ("ms", CLOCK.us + p_us)
                if old.delay.next_execution_time is not None:
                    m["schedP"] = ("ms", vloop.us_of(old.delay.next_execution_time) + p_us)
        return m


async def run_worker(loop, sc: dict, make=None, projector=inmem_projector, signature=inmem_signature,
                     latency_us=None, extra_setup=None):
    import repid._runner
    import repid.worker
    from repid import (BasicConverter, Connection, InMemoryBucketBroker, InMemoryMessageBroker, Job,
                       MessageDependency, Router, RouterDefaults, Worker)
    from repid.converter import PydanticConverter
    from repid.dependencies import Depends

    rec = WorkerRecorder(latency_us=latency_us)
    be = None
    if make is None and sc.get("backend", "inmem") != "inmem":
        import random as _random

        from .backends import backend as get_backend
        _random.seed(sc.get("seed", 0))
        be = get_backend(sc["backend"], loop, sc.get("seed", 0), schedule=bool(sc.get("schedule")))
        broker = be["make"]()[0]
        projector, signature = be["projector"], be["signature"]
        if sc.get("latency"):
            rec.latency_us = be["latency_us"]      # (the latency clause: due and waiting messages reach a listening consumer)
    elif make is None:
        broker = InMemoryMessageBroker()
    else:
        broker = make()
    rb = InMemoryBucketBroker(use_result_bucket=True) if sc.get("results") else None
    ab = InMemoryBucketBroker() if sc.get("args_bucket") else None
    conn = Connection(broker, ab, rb)
    if extra_setup is not None:
        extra_setup(conn, rec)
    if sc.get("slow_signals_ms"):
        # subscribers that only observe, but take their time (tracing, metrics): the settling calls are no longer instantaneous
        class _Slow:
            pass
        slow = _Slow()
        for name in ("before_reject", "before_ack", "before_nack", "before_requeue"):
            def mk(name=name):
                async def sub():
                    await asyncio.sleep(sc["slow_signals_ms"] / 1000)
                sub.__name__ = name
                return sub
            setattr(slow, name, mk())
        conn.middleware.add_middleware(slow)
    rec.wrap_broker(broker)
    rec.projectors.append(projector(broker))
    if signature is not None:
        rec.signatures.append(signature(broker))
    rec.install(loop)
    await conn.connect()

    store_calls = []
    if rb is not None:
        orig_store = rb.store_bucket
        nstore = [0]

        async def store_bucket(id_, payload):
            nstore[0] += 1
            fail = sc.get("store_fail_at") is not None and nstore[0] in sc["store_fail_at"]
            store_calls.append({"n": nstore[0], "rid": id_, "fail": fail, "success": getattr(payload, "success", None),
                                "data": getattr(payload, "data", None), "exception": getattr(payload, "exception", None),
                                "started": getattr(payload, "started_when", None), "finished": getattr(payload, "finished_when", None),
                                "ttl": getattr(payload, "ttl", None), "t_us": CLOCK.us})
            jid = id_[1:]
            i = rec.mid(jid)
            last = last_outcome.get(jid)
            match = False
            if last is not None:
                if last["eager"] is not None:       # eager response: the result / exception set last
                    kind, val = last["eager"]
                    match = (payload.success == (kind == "res")) and (
                        (kind == "res" and json.loads(payload.data) == val) or
                        (kind == "exc" and payload.data == str(val) and payload.exception == type(val).__name__))
                elif last["what"] == "ok":
                    match = payload.success is True and payload.exception is None and json.loads(payload.data) == last["ret"]
                else:
                    match = payload.success is False and payload.exception is not None and isinstance(payload.data, str)
                    if last["what"] == "raise" and last.get("exc") is not None:      # the exception's text and type name
                        match = match and payload.data == str(last["exc"]) and payload.exception == type(last["exc"]).__name__
                match = bool(match and payload.started_when <= payload.finished_when
                             and payload.ttl == jobs[jid].get("result_ttl", timedelta(days=1)))
            if fail:
                rec.emit({"e": "store", "i": i, "failed": True, "match": bool(match)})
                raise ConnectionError("result store unavailable (injected)")
            r = await orig_store(id_, payload)
            # the reading side: the producer's own Job object (the same object every time) sees what has just been stored
            job_obj = jobobjs.get(jid)
            if job_obj is not None and getattr(job_obj, "result_id", None) == id_:
                seen = await job_obj.result
                match = bool(match and seen is not None and (seen.data, seen.success, seen.exception, seen.started_when, seen.finished_when)
                             == (payload.data, payload.success, payload.exception, payload.started_when, payload.finished_when))
            rec.emit({"e": "store", "i": i, "failed": False, "match": bool(match)})
            return r
        store_bucket._repid_signal_emitter = getattr(orig_store, "_repid_signal_emitter", None)
        rb.store_bucket = store_bucket

    jobs = {j["id"]: j for j in sc["jobs"]}
    jobobjs: dict = {}
    gates: dict = {}
    last_outcome: dict = {}
    attempts = {j["id"]: 0 for j in sc["jobs"]}
    conv = BasicConverter if sc.get("converter", "basic") == "basic" else PydanticConverter
    policies = {name: make_policy(a.get("policy", ["const", 0])) for name, a in sc["actors"].items()}
    rec.policy_of = lambda topic: policies[topic]

    nworkers = sc.get("nworkers", 1)
    # (`worker_without_results': the producers store results, the worker's own connection has no result store configured --
    #  a deployment mistake that costs the results, not the messages' dispositions)
    wconn = conn
    if sc.get("worker_without_results"):
        wconn = Connection(broker, ab, None)
        await wconn.connect()
    # a single worker keeps its default signal handling: stop requests reach it as a signal, through the handler it registers
    # itself (several workers on one loop would overwrite each other's handlers: they are stopped through their runners)
    sigkw = {} if nworkers == 1 and not sc.get("no_signals") else {"handle_signals": []}
    workers = [Worker(graceful_shutdown_time=sc["worker"].get("grace_s", 1.0), **sigkw,
                      tasks_limit=sc["worker"].get("tasks_limit", 1000),
                      messages_limit=sc["worker"].get("messages_limit", 0) or float("inf"),
                      router_defaults=RouterDefaults(converter=conv), _connection=wconn) for _ in range(nworkers)]
    w = workers[0]
    seen_args = []

    def make_actor(name: str, variant: str):
        def next_what(jid):
            job = jobs[jid]
            att = attempts[jid]
            script = job.get("script", ["ok"])
            return script[att] if att < len(script) else job.get("then", "ok")

        async def run_script(jid: str, m, in_guard: bool = False):
            job = jobs[jid]
            i = rec.mid(jid)
            att = attempts[jid]
            attempts[jid] += 1
            script = job.get("script", ["ok"])
            what = script[att] if att < len(script) else job.get("then", "ok")
            if in_guard:
                what = "e_" + what[2:]        # `g_ack+res': the eager response is made by a dependency of the actor, not by its body
            elif what.startswith("g_"):
                # the body runs although a dependency has already answered for this delivery: the worker must never get here
                rec.exec_log.append({"id": jid, "after_eager": True, "body_after_guard": True})
                what = "ok"
            durs = job.get("dur_ms", [0])
            dur = durs[min(att, len(durs) - 1)]
            rec.in_body[i] = rec.in_body.get(i, 0) + 1
            rec.first_exec_us.setdefault(i, CLOCK.us)
            rec.exec_count[i] = rec.exec_count.get(i, 0) + 1
            rec.exec_log.append({"id": jid, "actor": name, "attempt": att, "t_us": CLOCK.us, "what": what})
            rec.emit({"e": "bs", "i": i, "okfn": job["actor"] == name})
            last_outcome[jid] = {"what": what, "ret": {"jid": jid, "att": att}, "eager": None}
            try:
                if dur:
                    await asyncio.sleep(dur / 1000)
                if job.get("gate_steps") is not None and att == 0:
                    # the body ends when the harness opens its gate: a chosen number of event-loop steps after the stop request
                    # (no time passes: the end of the actor falls between two steps of the shutdown, not on a timer)
                    gates.setdefault(jid, asyncio.Event())
                    await gates[jid].wait()
                if what == "ok":
                    return {"jid": jid, "att": att}
                if what == "raise":
                    # exceptions whose text is not simply their first argument, in turn
                    kinds = [lambda: ValueError(f"boom {jid} {att}"), lambda: KeyError(f"k{jid}{att}"), lambda: OSError(5, f"io {jid}"),
                             lambda: RuntimeError("two", f"args {att}"), lambda: _OddError(jid)]
                    exc = kinds[(att + len(jid) + sum(map(ord, jid))) % len(kinds)]()
                    last_outcome[jid]["exc"] = exc
                    raise exc
                if what == "cancelled":            # the actor ends with CancelledError of its own making
                    helper = asyncio.ensure_future(asyncio.sleep(3600))
                    helper.cancel()
                    await helper
                if what == "timeout":
                    await asyncio.sleep(job.get("timeout_s", 600) + 5)
                    return None
                if what.startswith("e_"):
                    parts = what.split("+")
                    for extra in parts[1:]:
                        if extra == "res":
                            m.set_result({"r": jid})
                            last_outcome[jid]["eager"] = ("res", {"r": jid})
                        elif extra == "exc":
                            exc = KeyError(f"k{jid}")
                            m.set_exception(exc)
                            last_outcome[jid]["eager"] = ("exc", exc)
                        elif extra == "sw":
                            pass
                        elif extra == "cb":
                            m.add_callback(lambda: rec.exec_log.append({"id": jid, "cb": True, "t_us": CLOCK.us}))
                    op = parts[0][2:]
                    try:
                        await getattr(m, op)()
                    except ValueError:      # the eager action was refused: an ordinary failure of the actor
                        last_outcome[jid]["eager"] = None
                        last_outcome[jid]["what"] = "raise"
                        raise
                    except Exception:       # noqa: BLE001
                        # `+sw': the actor's own error handling around the eager action catches Exception -- the eager response
                        # is not one, it ends the body all the same
                        if "sw" not in parts[1:]:
                            raise
                    rec.exec_log.append({"id": jid, "after_eager": True})   # must be unreachable
                    return None
                raise AssertionError(what)
            finally:
                if job.get("cleanup_ms"):      # a body whose clean-up (finally / context managers) takes time
                    try:
                        await asyncio.sleep(job["cleanup_ms"] / 1000)
                    except asyncio.CancelledError:
                        pass
                rec.in_body[i] -= 1
                rec.emit({"e": "be", "i": i})

        if variant == "dep":
            async def fn(jid, m):
                return await run_script(jid, m)
            fn.__annotations__ = {"jid": str, "m": MessageDependency}   # real objects, not strings
        elif variant in ("guard", "guardn"):
            # a dependency of the actor (directly, or nested in another dependency) holds the message handle and may answer
            # eagerly (`g_<op>' in the job's script) before the body runs: the delivery ends there, the body is not executed
            async def guard(m):
                jid = json.loads(m.raw_payload)["jid"]
                if next_what(jid).startswith("g_"):
                    await run_script(jid, m, in_guard=True)
                return "passed"
            guard.__annotations__ = {"m": MessageDependency}
            if variant == "guardn":
                async def outer(g):
                    return g
                outer.__annotations__ = {"g": Annotated[str, Depends(guard)]}
                top = outer
            else:
                top = guard

            async def fn(jid, g):
                return await run_script(jid, None)
            fn.__annotations__ = {"jid": str, "g": Annotated[str, Depends(top)]}
        elif variant == "noargs":
            async def fn():   # used by the empty-payload scenarios (jid taken from a side table)
                return await run_script(sc["noargs_jid"], None)
        else:
            async def fn(jid: str):
                return await run_script(jid, None)
        fn.__name__ = name
        return fn

    for wk in workers:
        for name, a in sc["actors"].items():
            wk.actor(name=name, queue=a.get("queue", "default"), retry_policy=policies[name])(make_actor(name, a.get("variant", "plain")))
    await w.declare_all_queues()
    for q in {j.get("queue", sc["actors"].get(j["actor"], {}).get("queue", "default")) for j in sc["jobs"]}:
        await broker.queue_declare(q)

    async def enqueue(j):
        kw = {}
        if j.get("defer_by_ms") is not None:
            kw["deferred_by"] = timedelta(milliseconds=j["defer_by_ms"])
        if j.get("deferred_until_ms") is not None:
            kw["deferred_until"] = vloop.wall(j["deferred_until_ms"] * 1000)
        if j.get("ttl_ms") is not None:
            kw["ttl"] = timedelta(milliseconds=j["ttl_ms"])
        if j.get("timeout_s") is not None:
            kw["timeout"] = timedelta(seconds=j["timeout_s"])
        if "args" in j:
            args = j["args"]
        else:
            args = {"jid": j["id"]}
        if j.get("next_exec_ms") is not None:
            # a recurring job between two iterations, as the worker's reschedule leaves it: period + the stored time of its next run
            from repid.data._parameters import DelayProperties, Parameters, RetriesProperties
            qn = j.get("queue", sc["actors"].get(j["actor"], {}).get("queue", "default"))
            params = Parameters(execution_timeout=kw.get("timeout", timedelta(minutes=10)), retries=RetriesProperties(max_amount=j.get("retries", 0)),
                                delay=DelayProperties(defer_by=timedelta(milliseconds=j["defer_by_ms"]), next_execution_time=vloop.wall(j["next_exec_ms"] * 1000)),
                                timestamp=vloop.wall())
            await conn.message_broker.enqueue(broker.ROUTING_KEY_CLASS(id_=j["id"], topic=j["actor"], queue=qn), json.dumps(args), params)
            return None
        job = Job(j["actor"], queue=j.get("queue", sc["actors"].get(j["actor"], {}).get("queue", "default")),
                  id_=j["id"], retries=j.get("retries", 0), args=args,
                  store_result=bool(j.get("result", sc.get("results", False))) if rb is not None else False,
                  result_id=f"r{j['id']}" if rb is not None else None,
                  _connection=conn, **kw)
        await job.enqueue()
        return job

    for j in sc["jobs"]:
        if not j.get("at_ms"):
            jobobjs[j["id"]] = await enqueue(j)

    async def feeder():
        for j in sorted((j for j in sc["jobs"] if j.get("at_ms")), key=lambda j: j["at_ms"]):
            await asyncio.sleep(max(0, j["at_ms"] * 1000 - CLOCK.us) / 1e6)
            jobobjs[j["id"]] = await enqueue(j)
    feed = asyncio.ensure_future(feeder())

    # ---- the runner, observed from outside -------------------------------------------------
    runners = []
    orig_actor_run = repid._runner._Runner.actor_run

    class ActorRunProxy:
        def __init__(self):
            self.__name__ = "actor_run"

        @property
        def _repid_signal_emitter(self):
            return orig_actor_run._repid_signal_emitter

        @_repid_signal_emitter.setter
        def _repid_signal_emitter(self, v):
            orig_actor_run._repid_signal_emitter = v

        async def __call__(self, actor, key, parameters, payload, connection):
            i = rec.mid(key.id_)
            rec.emit({"e": "xs", "i": i})
            try:
                res = await orig_actor_run(actor, key, parameters, payload, connection)
            except Exception:
                # actor_run turns every failure of the actor (conversion, dependencies, body, timeout) into a failed
                # result; an Exception that escapes it leaves the delivery without a disposition
                rec.emit({"e": "xe", "i": i, "out": "crash"})
                raise
            except BaseException:
                rec.emit({"e": "xe", "i": i, "out": "killed"})
                raise
            rec.emit({"e": "xe", "i": i, "out": "eager" if res.reporting_done else ("ok" if res.success else "fail")})
            return res

    class RecordingRunner(repid._runner._Runner):
        actor_run = staticmethod(ActorRunProxy())

        def __init__(self, *a, **k):
            super().__init__(*a, **k)
            runners.append(self)
            self.verif_wno = WNO.get()

    saved_runner = repid.worker._Runner
    repid.worker._Runner = RecordingRunner
    rec.worker_no = 1
    dl = sc.get("deadline_ms")
    rec.emit({"e": "wcfg", "tl": sc["worker"].get("tasks_limit", 1000), "ml": sc["worker"].get("messages_limit", 0),
              "donedl": 0})
    state = {"stopped": False, "forced": False, "steps0": loop.steps, "run_steps": None}
    grace = sc["worker"].get("grace_s", 1.0)

    def request_stop(which=None):
        if state["stopped"] or not runners:
            return False
        state["stopped"] = True
        if not state.get("killed") and not state.get("selfstop"):        # (a dead process is not asked to stop: nothing is expected of it any more)
            rec.emit({"e": "stop", "dl": ("us", CLOCK.us + int(grace * 1e6) + SLACK_US), "gdl": ("us", CLOCK.us + int(grace * 1e6))})
        if not (nworkers == 1 and getattr(loop, "sig_handlers", None) and loop.deliver_signal()):
            for r in runners:
                if which is None or r.verif_wno == which + 1:
                    r.sync_stop_wait_and_cancel(grace)
        if which is not None:       # the other workers go on until the horizon
            state["stopped"] = "partial"
        return True

    def stop_rest():
        if state["stopped"] == "partial":
            state["stopped"] = True
            for r in runners:
                if r._wait_for_cancel_task is None and not r.stop_consume_event.is_set():
                    r.sync_stop_wait_and_cancel(grace)

    prev_after = loop.after_handle

    def after(h):
        prev_after(h)
        if state["stopped"] and gates:
            state.setdefault("stop_step", loop.steps)
            for jid, g in gates.items():
                if not g.is_set() and loop.steps - state["stop_step"] >= jobs[jid]["gate_steps"]:
                    g.set()
        st = sc.get("stop")
        if st and not state["stopped"]:
            if "at_step" in st and loop.steps - state["steps0"] >= st["at_step"]:
                request_stop(st.get("worker"))
            elif "at_ms" in st and CLOCK.us >= st["at_ms"] * 1000:
                request_stop(st.get("worker"))
        if CLOCK.us >= sc.get("horizon_ms", 60_000) * 1000:
            if not state["stopped"]:
                request_stop()
            else:
                stop_rest()
        if loop.steps - state["steps0"] > sc.get("max_steps", 300_000) and not state.get("capped"):
            state["capped"] = True          # runaway scenario (no virtual time passes): abort it
            main_task.cancel()
        if runners and not state["stopped"] and not state.get("selfstop") and nworkers == 1 and any(r.stop_consume_event.is_set() for r in runners):
            # the worker stopped consuming by itself (messages limit): from here on it has the graceful period to return
            state["selfstop"] = True
            rec.emit({"e": "stop", "dl": ("us", CLOCK.us + int(grace * 1e6) + SLACK_US), "gdl": ("us", CLOCK.us + int(grace * 1e6))})
        if runners and not state["forced"] and not state.get("killed") and any(r.cancel_event.is_set() and r._tasks for r in runners):
            # the cancel event only *forces* anything if processing tasks are still pending
            state["forced"] = True
            rec.emit({"e": "forced"})
    # timers of the harness itself, so that its deadlines are noticed even when the system under test is idle
    # (brokers without polling schedule nothing while they wait)
    _wake = [loop.call_at(sc.get("horizon_ms", 60_000) / 1000, lambda: None)]
    if sc.get("stop") and "at_ms" in sc["stop"]:
        _wake.append(loop.call_at(sc["stop"]["at_ms"] / 1000, lambda: None))
    kill_fut = loop.create_future()

    def do_kill():
        """the worker's process dies: nothing it does reaches the broker any more, no cleanup runs"""
        state["killed"] = True
        rec.process_dead = True
        broker.conn.dead = True
        rec.emit({"e": "crash", "cs": sorted(c for c in rec.cons.values())})
        if not kill_fut.done():
            kill_fut.set_result(None)
    after_stop = after

    def after_kill(h):
        after_stop(h)
        kl = sc.get("kill")
        if kl and not state.get("killed") and loop.steps - state["steps0"] >= kl["at_step"]:
            do_kill()
    loop.after_handle = after_kill if sc.get("kill") else after
    run_exc = None
    async def run_one(idx):
        WNO.set(idx + 1)
        return await workers[idx].run()

    async def run_all():
        await asyncio.gather(*(asyncio.ensure_future(run_one(k)) for k in range(nworkers)))
    main_task = asyncio.ensure_future(asyncio.wait_for(run_all(), timeout=sc.get("horizon_ms", 60_000) / 1000 + 120))
    try:
        try:
            if sc.get("kill"):
                await asyncio.wait({main_task, kill_fut}, return_when=asyncio.FIRST_COMPLETED)
                if state.get("killed"):
                    raise _Killed
            await main_task
        except _Killed:
            run_exc = None
        except asyncio.TimeoutError:
            run_exc = "run() did not return"
        except asyncio.CancelledError:
            if not state.get("capped"):
                raise
            run_exc = "step cap reached: the scenario spins without virtual time passing"
        except Exception as e:  # noqa: BLE001
            run_exc = f"run() raised {type(e).__name__}: {e}"
        state["run_steps"] = loop.steps - state["steps0"]
        if state.get("killed"):
            await recover_after_kill(loop, sc, rec, be, jobs)
        elif run_exc is None:
            rec.emit({"e": "rend"})
        rec.worker_no = 0
        feed.cancel()
        await vloop.settle(40)
        await asyncio.sleep(0.3)      # stragglers: a delivery that crossed the consumer's shutdown is given back 0.1 s later
        await vloop.settle(10)
    finally:
        loop.after_handle = prev_after
        repid.worker._Runner = saved_runner
    late = False
    if dl is not None:
        for j in sc["jobs"]:
            i = rec.mid(j["id"])
            if j.get("must_run", True) and rec.first_exec_us.get(i, 1 << 62) > dl * 1000:
                late = True
    if sc.get("must_self_stop") and state["stopped"] and run_exc is None:
        run_exc = "run() did not return by itself (stopped by the harness at the horizon)"
    if late or run_exc is not None:
        rec.emit({"e": "late", "why": run_exc or "a job was not executed by the deadline",
                  "raised": bool(run_exc and run_exc.startswith("run() raised"))})
    rec.emit({"e": "time", "now": ("us", CLOCK.us)})
    rec.emit({"e": "quiet", "storefault": bool(sc.get("store_fail_at")),
              "foreign": [rec.mid(j["id"]) for j in sc["jobs"] if j.get("foreign")]})
    rec.obs()
    results = {}
    if rb is not None:
        for jid in jobs:
            b = await rb.get_bucket(f"r{jid}")
            results[jid] = None if b is None else {"success": b.success, "data": b.data, "exception": b.exception,
                                                   "started": b.started_when, "finished": b.finished_when,
                                                   "ttl": b.ttl.total_seconds() if b.ttl else None}
    info = {"run_steps": state["run_steps"], "run_exc": run_exc, "stopped": state["stopped"], "forced": state["forced"],
            "exec_log": rec.exec_log, "exec_count": {rec_id: n for rec_id, n in rec.exec_count.items()},
            "store_calls": store_calls, "results": results, "ids": dict(rec.ids), "late": late,
            "end_us": CLOCK.us,
            "event_steps": sorted(x - state["steps0"] for x in rec.event_steps if x >= state["steps0"])}
    return rec, info


class _Killed(Exception):
    pass


async def recover_after_kill(loop, sc, rec, be, jobs):
    """after the worker's process death: other clients come and go (each connect/disconnect runs the broker's
    maintenance) before and after the execution timeout of the messages left in flight; then a healthy consumer
    drains the queues"""
    from repid.message import MessageCategory
    tmo = max((j.get("timeout_s") or 600) for j in jobs.values())
    rec.worker_no = 0
    WNO.set(0)
    for wait_s in sc.get("recover_waits_s", [0.2, tmo - 1.5, 1.0, 0.45, 0.3, 1.2]):
        await asyncio.sleep(max(0.0, wait_s))
        b2, conn2 = be["make"]()
        await conn2.connect()          # -> maintenance
        await asyncio.sleep(0.01)
        await conn2.disconnect()       # -> maintenance
    b3, conn3 = be["make"]()
    rec.wrap_broker(b3)
    await conn3.connect()
    queues = {j.get("queue", sc["actors"].get(j["actor"], {}).get("queue", "default")) for j in jobs.values()}
    for q in sorted(queues):
        c = b3.get_consumer(q, None, None, MessageCategory.NORMAL)
        await c.start()
        while True:
            try:
                # (long enough for the latency clause to speak: a message that is due and waiting reaches a listening consumer)
                key, payload, params = await asyncio.wait_for(c.consume(), max(2.0, (be.get("latency_us") or 0) / 1e6 + 1.0))
            except asyncio.TimeoutError:
                break
            await b3.ack(key)
        await c.finish()
    await conn3.disconnect()


def record(sc: dict, **kw):
    vloop.setup()
    return vloop.run(run_worker, sc, **kw)
