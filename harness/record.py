"""Recorder: turns a real execution (on the virtual loop) into the event vocabulary of the trace
specs.  Call events come from instance-level wrappers around broker/consumer methods (the same
seam repid.testing.modifiers uses); `move` events come from projecting the broker's physical
state after every event-loop handle and diffing it (DESIGN.md section 4)."""
from __future__ import annotations

import asyncio
from typing import Any, Callable

from . import vloop
from .vloop import CLOCK, CURRENT_CALL

NO_TIME = 0


def next_exec_us(params) -> int | None:
    """The instant T of property C05 for a message with these parameters, evaluated now (this is
    what every broker's wait_until / wait_timestamp computes)."""
    if params is None or params.delay is None:
        return None
    t = params.delay.next_execution_time or params.compute_next_execution_time
    return None if t is None else vloop.us_of(t)


def expiry_us(params) -> int | None:
    if params is None or params.ttl is None:
        return None
    return vloop.us_of(params.timestamp + params.ttl)


class Recorder:
    def __init__(self, *, latency_us: int | None = None, fifo: bool = True) -> None:
        self.events: list[dict] = []
        self.ids: dict[str, int] = {}
        self.cons: dict[int, int] = {}          # id(consumer object) -> number
        self.cons_obj: dict[int, Any] = {}
        self.topics: dict[str, int] = {}
        self.queues: dict[str, int] = {}
        self.contents: list = []                 # content classes (by ==)
        self.ncalls = 0
        self.callinfo: dict[int, dict] = {}
        self.delivered_to: dict[int, int] = {}   # message number -> consumer number (client view)
        self.last_proj: dict[int, tuple] = {}
        self.last_us = -1
        self.latency_us = latency_us
        self.fifo = fifo
        self.projectors: list[Callable[[], dict]] = []
        self.deferred: dict[int, dict] = {}
        self.timeout_us: dict[int, int] = {}
        self.due_us: dict[int, int] = {}
        self.loop = None
        self.event_steps: set[int] = set()
        self.open_calls: set[int] = set()
        self.signatures: list[Callable[[], Any]] = []   # cheap change detectors (optional fast path)
        self.last_sig = None
        self.max_cons_per_queue: dict[int, int] = {}
        self.on_cons: dict[int, set] = {}

    # ---- naming -------------------------------------------------------------------------
    def mid(self, id_: str) -> int:
        return self.ids.setdefault(id_, len(self.ids) + 1)

    def tid_(self, t: str) -> int:
        return self.topics.setdefault(t, len(self.topics) + 1)

    def qid(self, q: str) -> int:
        return self.queues.setdefault(q, len(self.queues) + 1)

    def content(self, key, payload, params) -> int:
        tup = (key, payload, params)
        for n, c in enumerate(self.contents):
            if c == tup:
                return n + 1
        self.contents.append(tup)
        return len(self.contents)

    def meta(self, key, payload, params) -> dict:
        self.timeout_us[self.mid(key.id_)] = int(params.execution_timeout.total_seconds() * 1e6)
        due = next_exec_us(params)
        exp = expiry_us(params)
        if not getattr(self, "process_dead", False):      # (what the abandoned code of a dead process still computes reaches nobody)
            self.due_us[self.mid(key.id_)] = due or 0
        return {
            "q": self.qid(key.queue), "topic": self.tid_(key.topic), "prio": int(key.priority),
            "due": ("ms", due) if due is not None else NO_TIME,   # NeverEarly is at ms resolution
            "exp": ("us", exp) if exp is not None else NO_TIME,
            "dl": ("us", max(due if due is not None else 0, CLOCK.us) + self.latency_us) if self.latency_us is not None else NO_TIME,
            "ver": self.content(key, payload, params),
            # the due time floored to the whole second (what a broker that keeps whole-second scores compares with)
            "dues": ("us", due - due % 1_000_000) if due is not None else NO_TIME,
        }

    # ---- events -------------------------------------------------------------------------
    def emit(self, ev: dict) -> None:
        if self.loop is not None:
            self.event_steps.add(self.loop.steps)
        if CLOCK.us != self.last_us:
            self.last_us = CLOCK.us
            self.events.append({"e": "time", "now": ("us", CLOCK.us)})
        self.events.append(ev)

    def begin(self, op: str, c: int, i: int, m: dict | None = None) -> int:
        self.ncalls += 1
        k = self.ncalls
        self.callinfo[k] = {"op": op, "c": c, "i": i}
        self.open_calls.add(k)
        self.emit({"e": "begin", "k": k, "op": op, "c": c, "i": i,
                   "m": m or {"q": 0, "topic": 0, "prio": 0, "due": 0, "exp": 0, "dl": 0, "ver": 0, "dues": 0, "tried": 0,
                              "forced": 0, "bo": 0, "oldexp": 0, "nowP": 0, "schedP": 0, "ts": 0}})
        return k

    def cons_extra(self) -> dict:
        return {"w": 0}

    def consume_extra(self, i, key, payload, params) -> dict:
        return {}

    def end(self, k: int, st: str, i: int = 0, ver: int = 0, extra: dict | None = None) -> None:
        self.last_sig = None
        self.observe(None)
        for n in [n for n, d in self.deferred.items() if d["k"] == k]:
            self.emit(self.deferred.pop(n))
        self.open_calls.discard(k)
        self.emit({"e": "end", "k": k, "st": st, "i": i, "ver": ver, **(extra or {})})

    # ---- projection ---------------------------------------------------------------------
    def observe(self, handle) -> None:
        if self.signatures:
            sig = tuple(f() for f in self.signatures)
            if sig == self.last_sig:
                return
            self.last_sig = sig
        proj: dict[int, list] = {}
        for p in self.projectors:
            for id_, vec in p().items():
                n = self.mid(id_)
                cur = proj.setdefault(n, [0, 0, 0, 0])
                for j in range(4):
                    cur[j] += vec[j]
        k = 0
        if handle is not None:
            ctx = getattr(handle, "_context", None)
            if ctx is not None:
                k = ctx.get(CURRENT_CALL) or 0
        else:
            k = CURRENT_CALL.get() or 0
        for n in sorted(set(proj) | set(self.last_proj)):
            new = tuple(proj.get(n, (0, 0, 0, 0)))
            if new != self.last_proj.get(n, (0, 0, 0, 0)):
                info = self.callinfo.get(k, {})
                ev = {"e": "move", "i": n, "v": list(new), "k": k, "c": info.get("c", 0),
                      # earliest instant at which an in-flight message of a dead consumer may be reclaimed
                      "rdl": ("us", CLOCK.us + self.timeout_us.get(n, 600_000_000)) if new[3] else 0,
                      # the same with the take time truncated to the whole second (brokers keeping whole-second in-flight clocks)
                      "rdls": ("us", CLOCK.us - CLOCK.us % 1_000_000 + self.timeout_us.get(n, 600_000_000)) if new[3] else 0,
                      # a message that comes (back) to a waiting place: from when on the latency clause of C05 speaks for it again
                      "ldl": ("us", max(self.due_us.get(n, 0), CLOCK.us) + self.latency_us)
                      if (self.latency_us is not None and (new[0] or new[1]) and not new[3]) else 0}
                d = self.deferred.pop(n, None)
                if d is not None and d["k"] != k:
                    self.emit(d)
                # Linearizability: a message that is in no place *inside* an open call (other than
                # ack, whose effect that is, and requeue, whose remove/add halves the contract
                # models) is not an API-level observation yet; it becomes one if the call ends,
                # or another call touches the message, while it is still missing.
                if not any(new) and k in self.open_calls and info.get("op") not in ("ack", "requeue"):
                    self.deferred[n] = ev
                else:
                    self.emit(ev)
        self.last_proj = {n: tuple(v) for n, v in proj.items() if any(v)}

    def obs(self) -> None:
        """log the complete projection (every known id)"""
        self.last_sig = None
        self.observe(None)
        for n in sorted(self.deferred):
            self.emit(self.deferred.pop(n))
        n = len(self.ids)
        self.emit({"e": "obs", "v": [list(self.last_proj.get(j, (0, 0, 0, 0))) for j in range(1, n + 1)]})

    def install(self, loop: vloop.VLoop) -> None:
        prev = loop.after_handle
        self.loop = loop

        def after(h):
            if prev is not None:
                prev(h)
            self.observe(h)

        loop.after_handle = after

    # ---- wrapping -----------------------------------------------------------------------
    def wrap_broker(self, broker) -> None:
        rec = self

        def wrap(name):
            orig = getattr(broker, name)

            async def inner(key, payload="", params=None):
                if CURRENT_CALL.get():   # nested inside another recorded call: not an API-level call
                    return await (orig(key, payload, params) if name in ("enqueue", "requeue") else orig(key))
                i = rec.mid(key.id_)
                c = rec.delivered_to.get(i, 0)
                m = None
                if name in ("enqueue", "requeue"):
                    m = rec.meta(key, payload, params if params is not None else broker.PARAMETERS_CLASS())
                k = rec.begin(name, c, i, m)
                tok = CURRENT_CALL.set(k)
                try:
                    r = await (orig(key, payload, params) if name in ("enqueue", "requeue") else orig(key))
                except asyncio.CancelledError:
                    rec.end(k, "cancel")
                    raise
                except Exception:
                    rec.end(k, "exc")
                    raise
                else:
                    if name != "enqueue":
                        rec.delivered_to.pop(i, None)
                    rec.end(k, "ok")
                    return r
                finally:
                    try:
                        CURRENT_CALL.reset(tok)
                    except ValueError:      # coroutine finalised from another context at loop teardown
                        pass

            inner.__name__ = name
            inner._repid_signal_emitter = getattr(orig, "_repid_signal_emitter", None)
            setattr(broker, name, inner)

        for n in ("enqueue", "ack", "nack", "reject", "requeue"):
            wrap(n)

        def wrap_queue_op(name, op):
            orig = getattr(broker, name)

            async def inner(queue_name):
                if CURRENT_CALL.get():
                    return await orig(queue_name)
                m = {"q": rec.qid(queue_name), "topic": 0, "prio": 0, "due": 0, "exp": 0, "dl": 0, "ver": 0, "dues": 0}
                k = rec.begin(op, 0, 0, m)
                tok = CURRENT_CALL.set(k)
                try:
                    r = await orig(queue_name)
                except asyncio.CancelledError:
                    rec.end(k, "cancel")
                    raise
                except Exception:
                    rec.end(k, "exc")
                    raise
                else:
                    rec.end(k, "ok")
                    return r
                finally:
                    try:
                        CURRENT_CALL.reset(tok)
                    except ValueError:
                        pass

            inner.__name__ = name
            inner._repid_signal_emitter = getattr(orig, "_repid_signal_emitter", None)
            setattr(broker, name, inner)

        if hasattr(broker, "maintenance"):
            orig_maint = broker.maintenance

            async def maintenance():
                if CURRENT_CALL.get():
                    return await orig_maint()
                k = rec.begin("maint", 0, 0)
                tok = CURRENT_CALL.set(k)
                try:
                    r = await orig_maint()
                except asyncio.CancelledError:
                    rec.end(k, "cancel")
                    raise
                except Exception:
                    rec.end(k, "exc")
                    raise
                else:
                    rec.end(k, "ok")
                    return r
                finally:
                    try:
                        CURRENT_CALL.reset(tok)
                    except ValueError:
                        pass
            broker.maintenance = maintenance

        # queue_flush / queue_delete remove the messages of one queue; queue_declare must not touch any
        for n, op in (("queue_flush", "flush"), ("queue_delete", "flush"), ("queue_declare", "declare")):
            wrap_queue_op(n, op)
        orig_get = broker.get_consumer

        def get_consumer(queue_name, topics=None, max_unacked_messages=None, category=None, **kw):
            from repid.message import MessageCategory
            cat = MessageCategory.NORMAL if category is None else category
            cons = orig_get(queue_name, topics, max_unacked_messages, cat, **kw)
            rec.wrap_consumer(cons, queue_name, topics, cat)
            return cons

        broker.get_consumer = get_consumer

    def wrap_consumer(self, cons, queue_name, topics, category) -> int:
        rec = self
        c = len(self.cons) + 1
        self.cons[id(cons)] = c
        self.cons_obj[c] = cons
        q = self.qid(queue_name)
        cat = {"NORMAL": "n", "DELAYED": "d", "DEAD": "x"}[category.value]
        extra = self.cons_extra()
        self.emit({"e": "cons", "c": c, "q": q, "cat": cat,
                   "topics": sorted(self.tid_(t) for t in (topics or [])), **extra})
        if getattr(self, "process_dead", False) and extra.get("w"):
            # (a consumer that the abandoned code of a dead process still creates: it belongs to the dead, nobody is listening)
            self.emit({"e": "crash", "cs": [c]})

        def wrap(name):
            orig = getattr(cons, name)

            async def inner(*a, **kw):
                if CURRENT_CALL.get():
                    return await orig(*a, **kw)
                m = None
                if name == "consume" and rec.latency_us is not None:
                    m = {"q": 0, "topic": 0, "prio": 0, "due": 0, "exp": 0, "ver": 0, "dues": 0, "dl": ("us", CLOCK.us + rec.latency_us)}
                k = rec.begin(name, c, 0, m)
                if name == "start":
                    s = rec.on_cons.setdefault(q, set())
                    s.add(c)
                    rec.max_cons_per_queue[q] = max(rec.max_cons_per_queue.get(q, 0), len(s))
                tok = CURRENT_CALL.set(k)
                try:
                    r = await orig(*a, **kw)
                except asyncio.CancelledError:
                    rec.end(k, "cancel")
                    raise
                except Exception:
                    rec.end(k, "exc")
                    raise
                else:
                    if name == "consume":
                        key, payload, params = r
                        i = rec.mid(key.id_)
                        rec.delivered_to[i] = c
                        rec.end(k, "ok", i, rec.content(key, payload, params), rec.consume_extra(i, key, payload, params))
                    else:
                        if name == "finish":
                            rec.on_cons.setdefault(q, set()).discard(c)
                        rec.end(k, "ok")
                    return r
                finally:
                    try:
                        CURRENT_CALL.reset(tok)
                    except ValueError:      # coroutine finalised from another context at loop teardown
                        pass

            inner.__name__ = name
            inner._repid_signal_emitter = getattr(orig, "_repid_signal_emitter", None)
            setattr(cons, name, inner)

        for n in ("start", "finish", "consume"):
            wrap(n)
        return c

    # ---- output -------------------------------------------------------------------------
    def trace(self, devs: list[str] | None = None, chk: list[str] | None = None) -> list[dict]:
        """Events with every instant replaced by its rank among the instants of the trace
        (order-preserving, so exact for a spec that only compares times).  `ms`-tagged instants
        (due times) are floored to the millisecond first: "never before T at ms resolution"."""
        single = all(v <= 1 for v in self.max_cons_per_queue.values())
        inst = set()

        def val(x):
            kind, us = x
            return us - us % 1000 if kind == "ms" else us

        def walk(o):
            if isinstance(o, tuple):
                inst.add(val(o))
            elif isinstance(o, dict):
                for v in o.values():
                    walk(v)

        for ev in self.events:
            walk(ev)
        rank = {v: n + 1 for n, v in enumerate(sorted(inst))}

        def conv(o):
            if isinstance(o, tuple):
                return rank[val(o)]
            if isinstance(o, dict):
                return {k: conv(v) for k, v in o.items()}
            return o

        allchk = ["fifo", "early", "latency", "ttl", "holder", "content"] if chk is None else list(chk)
        if not (self.fifo and single) and "fifo" in allchk:
            allchk.remove("fifo")   # C15 speaks about a single consumer (DESIGN section 6, readings)
        out = [{"e": "hdr", "chk": allchk, "devs": list(devs or [])}]
        out += [conv(ev) for ev in self.events]
        return out


# ---- projections of the real brokers ----------------------------------------------------------

def inmem_signature(broker) -> Callable[[], Any]:
    def sig():
        return tuple(
            (tuple(map(id, q.simple._queue)), tuple(id(m) for ms in q.delayed.values() for m in ms),
             tuple(map(id, q.dead)), frozenset(map(id, q.processing)))
            for q in broker.queues.values()
        )
    return sig


def inmem_projector(broker) -> Callable[[], dict]:
    def proj() -> dict:
        out: dict[str, list] = {}
        for q in broker.queues.values():
            for m in list(q.simple._queue):
                out.setdefault(m.key.id_, [0, 0, 0, 0])[0] += 1
            for ms in q.delayed.values():
                for m in ms:
                    out.setdefault(m.key.id_, [0, 0, 0, 0])[1] += 1
            for m in q.dead:
                out.setdefault(m.key.id_, [0, 0, 0, 0])[2] += 1
            for m in q.processing:
                out.setdefault(m.key.id_, [0, 0, 0, 0])[3] += 1
        return out
    return proj
