"""The message-broker back-ends the broker-level and worker-level checks run against."""
from __future__ import annotations

import random


def backend(name: str, loop=None, seed: int = 0, schedule: bool = False):
    """returns dict(make, projector, signature, latency_us, extra)"""
    if name == "inmem":
        from repid import Connection, InMemoryMessageBroker
        from repid.connections.in_memory.consumer import _InMemoryConsumer

        from .record import inmem_projector, inmem_signature

        def make():
            b = InMemoryMessageBroker()
            return b, Connection(b)
        return {"make": make, "projector": inmem_projector, "signature": inmem_signature,
                "latency_us": int((_InMemoryConsumer.UPDATE_DELAYED_EVERY + 0.002 + 1.0) * 1e6)}
    if name == "redis":
        from repid import Connection
        from repid.connections.redis.consumer import _RedisConsumer

        from .fakes import redis as fr
        srv = fr.Server()
        sched = fr.Scheduler(random.Random(seed)) if schedule else None
        if sched is not None and loop is not None:
            loop.idle_hook = sched.release_one
        n = [0]

        def make():
            n[0] += 1
            b = fr.make_broker(srv, f"cl{n[0]}", sched)
            return b, Connection(b)
        # one pass over the three priorities with an empty queue sleeps POLLING_WAIT per priority + once more
        lat = int((4 * _RedisConsumer.POLLING_WAIT + 1.0 + 1.0) * 1e6)
        return {"make": make, "projector": lambda b: fr.projector(srv), "signature": lambda b: fr.signature(srv),
                "latency_us": lat, "server": srv, "scheduler": sched}
    if name == "rabbit":
        from repid import Connection, RabbitMessageBroker

        from .fakes import amqp as fa
        srv = fa.Server()
        dsn = f"amqp://fake-{id(srv)}"
        fa.install(dsn, srv)

        def make():
            b = RabbitMessageBroker(dsn)
            return b, Connection(b)
        return {"make": make, "projector": lambda b: fa.projector(srv), "signature": lambda b: fa.signature(srv),
                "latency_us": int((0.2 + 1.0) * 1e6), "server": srv}
    raise ValueError(name)
