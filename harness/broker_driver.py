"""Broker-API history driver: issues well-behaved client histories (enqueue / consumer start,
finish / consume / ack / nack / reject / requeue / clock advance) against a real message broker
on the virtual loop, with optional task cancellation injected after the n-th loop step of one
chosen call.  Used for C01 C05 C07 C12 C14 C15."""
from __future__ import annotations

import asyncio
import logging
import random
from dataclasses import dataclass, field
from datetime import timedelta

from . import vloop
from .record import Recorder, inmem_projector, inmem_signature
from .vloop import CLOCK

logging.getLogger("repid").setLevel(100)


SPIN_STEPS = 150_000


class _Spin(Exception):
    pass


@dataclass
class Scenario:
    seed: int
    nops: int = 30
    nqueues: int = 1
    consumers: list = field(default_factory=lambda: [("q1", None, "NORMAL")])  # (queue, topics, category)
    topics: list = field(default_factory=lambda: ["ta"])
    max_ids: int = 8
    delays_ms: list = field(default_factory=lambda: [None, None, -5, 0, 1, 250, 1500])
    ttls_ms: list = field(default_factory=lambda: [None, None, None, 1000, 2500])
    sleeps_ms: list = field(default_factory=lambda: [1, 50, 999, 1000, 1001, 3000])
    inject: tuple | None = None          # (op_index, steps_after_begin)
    concurrent: bool = False
    prios: list = field(default_factory=lambda: [5])
    weights: dict = field(default_factory=dict)
    consume_tmo_ms: list = field(default_factory=lambda: [5, 1200, 2500])
    schedule: bool = False               # fake servers: seeded random order of pending round trips
    fifo_only: bool = False              # only undelayed, no ttl: pure ordering histories
    exec_timeouts_s: list = field(default_factory=lambda: [None])    # execution timeouts offered to enqueue
    no_defer: bool = False               # never offer recurring (defer_by) parameters
    script: list | None = None           # directed history: the operations in this order instead of seeded choices
    delay_kind: str | None = None        # "net" | "until" | "defer+net" | "defer": force the form of the delay parameters
    slow_signals_ms: object = 0             # subscribers on the settling calls that only observe, but take this long
    abs_delays: bool = False             # delays count from the start of the history, not from the enqueue: identical due instants


def make_inmem():
    from repid import Connection, InMemoryMessageBroker
    b = InMemoryMessageBroker()
    conn = Connection(b)
    return b, conn


async def run_history(loop, sc: Scenario, make=None, projector=None, latency_us=None, signature=None, backend="inmem"):
    from repid.data._parameters import DelayProperties, Parameters
    from repid.message import MessageCategory

    from .backends import backend as get_backend
    rng = random.Random(sc.seed)
    random.seed(sc.seed)          # (the Redis consumer draws its priority order from the global RNG)
    if make is None:
        be = get_backend(backend, loop, sc.seed, schedule=sc.schedule)
        make, projector, signature = be["make"], be["projector"], be["signature"]
        latency_us = be["latency_us"] if latency_us is None else latency_us
    broker, conn = make()
    if sc.slow_signals_ms:
        class _Slow:
            pass
        slow = _Slow()
        slow_n = [0]
        for name in ("before_reject", "before_ack", "before_nack", "before_requeue"):
            def mk(name=name):
                async def sub():
                    # (a list: the calls take these times in turn -- the first one may be the slowest)
                    ms = sc.slow_signals_ms
                    if isinstance(ms, (list, tuple)):
                        slow_n[0] += 1
                        ms = ms[(slow_n[0] - 1) % len(ms)]
                    await asyncio.sleep(ms / 1000)
                sub.__name__ = name
                return sub
            setattr(slow, name, mk())
        conn.middleware.add_middleware(slow)
    rec = Recorder(latency_us=latency_us)
    rec.wrap_broker(broker)
    rec.projectors.append(projector(broker))
    if signature is not None:
        rec.signatures.append(signature(broker))
    rec.install(loop)
    await conn.connect()
    queues = sorted({c[0] for c in sc.consumers})
    for q in queues:
        await broker.queue_declare(q)

    cons = []
    for (q, topics, cat) in sc.consumers:
        cons.append({"obj": broker.get_consumer(q, topics, None, MessageCategory[cat]), "q": q,
                     "on": False, "held": [], "cat": cat})
    nid = 0
    oplog = []
    stats = {"ops": 0, "cancelled": 0, "consumed": 0, "opsteps": {}}
    RK = broker.ROUTING_KEY_CLASS

    # a broker call (or a consumer's background task) that spins without virtual time passing would hang the harness: after
    # SPIN_STEPS loop steps at one instant every task but this one is cancelled and the history ends with a `spin' event
    spin = {"us": CLOCK.us, "steps": loop.steps, "hit": False}
    me = asyncio.current_task()
    prev_after0 = loop.after_handle

    def spin_guard(h):
        prev_after0(h)
        if CLOCK.us != spin["us"]:
            spin["us"], spin["steps"] = CLOCK.us, loop.steps
        elif loop.steps - spin["steps"] > SPIN_STEPS and not spin["hit"]:
            spin["hit"] = True
            for t in asyncio.all_tasks(loop):
                if t is not me:
                    t.cancel()
    loop.after_handle = spin_guard

    async def do(op_index, coro_fn):
        """run one API call as its own task; inject cancellation if asked to"""
        if spin["hit"]:
            raise _Spin
        t = asyncio.ensure_future(coro_fn())
        s0 = loop.steps
        t.add_done_callback(lambda _t: stats["opsteps"].__setitem__(op_index, loop.steps - s0))
        if sc.inject is not None and sc.inject[0] == op_index:
            start = loop.steps
            want = sc.inject[1]
            prev = loop.after_handle

            def after(h):
                prev(h)
                if not t.done() and loop.steps - start >= want:
                    t.cancel()
                    loop.after_handle = prev
            loop.after_handle = after
            try:
                r = await t
            except asyncio.CancelledError:
                stats["cancelled"] += 1
                r = "CANCELLED"
            finally:
                if loop.after_handle is after:
                    loop.after_handle = prev
            return r
        return await t

    t0_wall = vloop.wall()

    def mkparams(delay_ms, ttl_ms):
        now = vloop.wall()
        kw = {}
        if delay_ms is not None:
            when = (t0_wall if sc.abs_delays else now) + timedelta(milliseconds=delay_ms)
            r = rng.random()
            if sc.delay_kind is not None:
                r = {"net": 0.1, "until": 0.5, "defer": 0.8, "defer+net": 0.95}[sc.delay_kind]
            if r < 0.4:
                kw["delay"] = DelayProperties(next_execution_time=when)
            elif r < 0.75 or (sc.no_defer and sc.delay_kind is None):
                kw["delay"] = DelayProperties(delay_until=when)
            elif r < 0.88 and ttl_ms is None and delay_ms > 0:
                # the first run of a recurring job with a long period (no stored next time: its due time is the next point of
                # the period grid, which is anchored at its timestamp): once that point has passed the message is as due as
                # any other, also after it has been taken and given back
                period = timedelta(hours=1)
                now = when - period
                kw["delay"] = DelayProperties(defer_by=period)
            else:
                # a recurring message that carries the time of its next execution (a retry of a periodic job whose back-off
                # is longer than the period): the stored time is what counts, not the next point of the period grid
                kw["delay"] = DelayProperties(defer_by=timedelta(milliseconds=rng.choice([200, 1000])), next_execution_time=when)
        if ttl_ms is not None:
            kw["ttl"] = timedelta(milliseconds=ttl_ms)
        et = rng.choice(sc.exec_timeouts_s)
        if et is not None:
            kw["execution_timeout"] = timedelta(seconds=et)
        return Parameters(timestamp=now, **kw)

    for n in range(len(sc.script) if sc.script else sc.nops):
      try:
          if spin["hit"]:
              raise _Spin
          choices = []
          w = sc.weights
          if nid < sc.max_ids:
              choices += ["enq"] * w.get("enq", 4)
          for ci, c in enumerate(cons):
              if not c["on"]:
                  choices += [("start", ci)] * w.get("start", 2)
              elif c.get("bg") is not None:
                  # a consume() call is waiting in the background: the client goes on with other things (or collects it)
                  choices += [("join", ci)] * w.get("join", 0)
              else:
                  choices += [("consume", ci)] * w.get("consume", 4)
                  choices += [("consume_bg", ci)] * w.get("consume_bg", 0)
                  choices += [("finish", ci)] * w.get("finish", 1)
              if c["on"]:
                  choices += [("unpause", ci) if c.get("paused") else ("pause", ci)] * w.get("pause", 0)
              for hi in range(len(c["held"])):
                  for o in ("ack", "nack", "reject", "requeue"):
                      if o == "nack" and c["cat"] != "NORMAL" and not w.get("nack_any"):
                          continue  # message API refuses it; broker-level histories stay within C16
                      choices += [(o, ci, hi)] * w.get(o, 1)
          choices += ["sleep"] * w.get("sleep", 2)
          if hasattr(broker, "maintenance"):
              # another client of the same broker connects / disconnects: the broker's maintenance runs
              choices += ["maint"] * w.get("maint", 0)
          for q in queues:
              choices += [("qflush", q)] * w.get("flush", 0)
              choices += [("qdeclare", q)] * w.get("declare", 0)
              # a queue is deleted only while nobody is listening on it or holds one of its messages
              if not any(c["q"] == q and (c["on"] or c["held"]) for c in cons):
                  choices += [("qdelete", q)] * w.get("delete", 0)
          ch = rng.choice(choices)
          if sc.script:
              ch = sc.script[n]
              ch = tuple(ch) if isinstance(ch, list) else ch
              if ch not in ("enq", "maint") and ch[0] not in ("sleep", "enqx", "finish_bg", "join_finish") and ch not in choices:
                  continue                   # (not applicable in the client's present state, e.g. after an interrupted call)
          stats["ops"] += 1
          if ch == "enq" or ch[0] == "enqx":
              nid += 1
              q = rng.choice(queues)
              topic = rng.choice(sc.topics)
              delay = None if sc.fifo_only else rng.choice(sc.delays_ms)
              ttl = None if sc.fifo_only else rng.choice(sc.ttls_ms)
              if ch != "enq":         # directed: ("enqx", topic, delay_ms, ttl_ms)
                  topic, delay, ttl = ch[1], ch[2], ch[3]
              key = RK(id_=f"m{nid}", topic=topic, queue=q, priority=rng.choice(sc.prios))
              params = mkparams(delay, ttl)
              payload = f'{{"n":{nid}}}'
              oplog.append(("enq", key.id_, topic, delay, ttl))
              await do(n, lambda: broker.enqueue(key, payload, params))
          elif ch == "maint":
              oplog.append(("maint",))
              if hasattr(broker, "maintenance"):
                  await broker.maintenance()
          elif ch == "sleep" or ch[0] == "sleep":
              ms = rng.choice(sc.sleeps_ms) if ch == "sleep" else ch[1]
              oplog.append(("sleep", ms))
              await asyncio.sleep(ms / 1000)
          elif ch[0] in ("qflush", "qdeclare", "qdelete"):
              q = ch[1]
              oplog.append(ch)
              if ch[0] == "qflush":
                  await do(n, lambda: broker.queue_flush(q))
              elif ch[0] == "qdeclare":
                  await do(n, lambda: broker.queue_declare(q))
              else:
                  await do(n, lambda: broker.queue_delete(q))
                  await broker.queue_declare(q)      # (the histories go on using the queue ...
                  for ci, c in enumerate(cons):      #  ... through consumers created after it was declared again)
                      if c["q"] == q:
                          c["obj"] = broker.get_consumer(q, sc.consumers[ci][1], None, MessageCategory[c["cat"]])
          elif ch[0] == "start":
              c = cons[ch[1]]
              oplog.append(("start", ch[1]))
              r = await do(n, c["obj"].start)
              # (an interrupted start may or may not have taken effect: the client treats the consumer as
              #  started, so that it will be finished -- a well-behaved client does not abandon it)
              c["on"] = True
          elif ch[0] == "finish_bg":
              # finish() of the consumer runs in the background while its client goes on (a shutdown that gives messages back
              # from two sides at once)
              c = cons[ch[1]]
              oplog.append(("finish_bg", ch[1]))
              c["fin_bg"] = asyncio.ensure_future(do(n, c["obj"].finish))
              await asyncio.sleep(0)
          elif ch[0] == "join_finish":
              c = cons[ch[1]]
              oplog.append(("join_finish", ch[1]))
              if c.get("fin_bg") is not None:
                  await c.pop("fin_bg")
                  c["on"] = False
                  c["held"] = []
                  c["obj"] = broker.get_consumer(c["q"], sc.consumers[ch[1]][1], None, MessageCategory[c["cat"]])
          elif ch[0] == "finish":
              c = cons[ch[1]]
              oplog.append(("finish", ch[1]))
              await do(n, c["obj"].finish)
              c["on"] = False
              c["held"] = []
              # a finished consumer object is not restarted; take a fresh one (like Queue.get_messages)
              c["obj"] = broker.get_consumer(c["q"], sc.consumers[ch[1]][1], None, MessageCategory[c["cat"]])
          elif ch[0] in ("pause", "unpause"):
              c = cons[ch[1]]
              oplog.append(ch)
              r = await do(n, getattr(c["obj"], ch[0]))
              if r != "CANCELLED":             # (an interrupted pause may not have taken effect: the client does not unpause it)
                  c["paused"] = ch[0] == "pause"
          elif ch[0] in ("consume", "consume_bg", "join"):
              c = cons[ch[1]]
              if ch[0] == "join":
                  oplog.append(ch)
                  t = c.pop("bg")
                  c["bg"] = None
              else:
                  tmo = rng.choice(sc.consume_tmo_ms) if ch[0] == "consume" else 8000
                  oplog.append((ch[0], ch[1], tmo))

                  async def consume_with_timeout(obj=c["obj"], tmo=tmo):
                      return await asyncio.wait_for(obj.consume(), tmo / 1000)
                  t = asyncio.ensure_future(do(n, consume_with_timeout))
                  if ch[0] == "consume_bg":
                      c["bg"] = t
                      await asyncio.sleep(0.002)      # let it reach its polling loop
                      continue
              try:
                  r = await t
              except asyncio.TimeoutError:
                  r = None
              except RuntimeError:          # "Consumer wasn't started." (its start had been interrupted)
                  r = None
                  c["on"] = False
              if r is not None and r != "CANCELLED":
                  # a duplicate delivery (the same id handed to a second consumer while the first still holds it) is for
                  # the contract to judge; the clients stay well-behaved: only the latest receiver goes on acting on it
                  for other in cons:
                      other["held"] = [h for h in other["held"] if h[0].id_ != r[0].id_]
                  c["held"].append(r)
                  stats["consumed"] += 1
          else:
              o, ci, hi = ch
              c = cons[ci]
              key, payload, params = c["held"].pop(hi)
              oplog.append((o, ci, key.id_))
              if o == "requeue":
                  delay = None if sc.fifo_only else rng.choice(sc.delays_ms)
                  if delay is None:
                      newp = Parameters(timestamp=vloop.wall(), ttl=params.ttl, retries=params.retries)
                  else:
                      newp = params._prepare_retry(timedelta(milliseconds=delay))
                  r = await do(n, lambda: broker.requeue(key, payload + " ", newp))
              else:
                  r = await do(n, lambda: getattr(broker, o)(key))
              if r == "CANCELLED":
                  # the client does not know whether the call took effect: it gives the message up
                  pass
      except (_Spin, asyncio.CancelledError):
          if not spin["hit"]:
              raise
          rec.emit({"e": "spin"})       # (no action of the contract explains it: the execution is rejected here)
          stats["spin"] = True
          break
    for c in cons:          # nothing is left pending: paused consumers are released, waiting consume() calls collected
        if c.get("paused") and c["on"]:
            try:
                await c["obj"].unpause()
            except RuntimeError:
                pass
        if c.get("fin_bg") is not None:
            await c.pop("fin_bg")
        if c.get("bg") is not None:
            try:
                r = await c["bg"]
                if r is not None and r != "CANCELLED":
                    stats["consumed"] += 1
            except (asyncio.TimeoutError, RuntimeError):
                pass
    await vloop.settle(5)
    rec.emit({"e": "time", "now": ("us", CLOCK.us)})
    rec.obs()
    return rec, oplog, stats


def record(sc: Scenario, **kw):
    return vloop.run(run_history, sc, **kw)
