"""Minimal parser for the TLA+ values TLC prints in simulation behaviour files and counter-examples:
integers, strings, TRUE/FALSE, <<sequences>>, {sets}, [records |-> ...], (functions a :> b @@ ...)."""
from __future__ import annotations

import re


class _P:
    def __init__(self, s: str) -> None:
        self.s, self.i = s, 0

    def ws(self):
        while self.i < len(self.s) and self.s[self.i].isspace():
            self.i += 1

    def val(self):
        self.ws()
        s = self.s
        if s.startswith("<<", self.i):
            self.i += 2
            out = []
            while True:
                self.ws()
                if s.startswith(">>", self.i):
                    self.i += 2
                    return out
                out.append(self.val())
                self.ws()
                if s.startswith(",", self.i):
                    self.i += 1
        if s.startswith("{", self.i):
            self.i += 1
            out = []
            while True:
                self.ws()
                if s.startswith("}", self.i):
                    self.i += 1
                    return set(map(_freeze, out))
                out.append(self.val())
                self.ws()
                if s.startswith(",", self.i):
                    self.i += 1
        if s.startswith("[", self.i):
            self.i += 1
            out = {}
            while True:
                self.ws()
                if s.startswith("]", self.i):
                    self.i += 1
                    return out
                m = re.match(r"\w+", s[self.i:])
                k = m.group(0)
                self.i += len(k)
                self.ws()
                assert s.startswith("|->", self.i), s[self.i:self.i + 20]
                self.i += 3
                out[k] = self.val()
                self.ws()
                if s.startswith(",", self.i):
                    self.i += 1
        if s.startswith('"', self.i):
            j = s.index('"', self.i + 1)
            v = s[self.i + 1:j]
            self.i = j + 1
            return v
        m = re.match(r"-?\d+|TRUE|FALSE", s[self.i:])
        if not m:
            raise ValueError("cannot parse TLA value at: " + s[self.i:self.i + 40])
        self.i += len(m.group(0))
        t = m.group(0)
        return True if t == "TRUE" else False if t == "FALSE" else int(t)


def _freeze(v):
    if isinstance(v, list):
        return tuple(_freeze(x) for x in v)
    if isinstance(v, dict):
        return tuple(sorted((k, _freeze(x)) for k, x in v.items()))
    if isinstance(v, set):
        return frozenset(v)
    return v


def parse_value(text: str):
    return _P(text).val()


def parse_behaviour(text: str) -> list[dict]:
    """list of states (dict var -> value) from a `tlc -simulate file=...` behaviour module"""
    states = []
    for block in re.split(r"^STATE_\d+ ==\s*$", text, flags=re.M)[1:]:
        block = block.split("\n\n\n")[0]
        block = re.split(r"^\\\*|^=====", block, flags=re.M)[0]
        st = {}
        parts = re.split(r"^/\\ (\w+) = ", block, flags=re.M)
        for k in range(1, len(parts) - 1, 2):
            st[parts[k]] = parse_value(parts[k + 1].strip())
        states.append(st)
    return states
