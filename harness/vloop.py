"""Deterministic substrate: integer-microsecond virtual clock, virtual-time asyncio loop that runs
ready handles one at a time with an ``after_handle`` hook, and rebinding of every wall-clock read
inside ``repid.*`` to the virtual clock.  (DESIGN.md section 4, Appendix A.2/A.3)"""
from __future__ import annotations

import asyncio
import contextvars
import datetime as _dt
import heapq
import sys
import time as _time
import types

# Wall clock = EPOCH + virtual microseconds.  The epoch is a whole second so that the position of
# "now" inside its clock second is exactly (us % 1_000_000).
EPOCH_US = 1_700_000_000 * 1_000_000


class VClock:
    def __init__(self) -> None:
        self.us = 0  # virtual monotonic microseconds since the start of the run

    def time(self) -> float:
        return (EPOCH_US + self.us) / 1e6

    def time_ns(self) -> int:
        return (EPOCH_US + self.us) * 1000

    def monotonic(self) -> float:
        return self.us / 1e6


CLOCK = VClock()
_BASE = _dt.datetime(1970, 1, 1)


def wall(us: int | None = None) -> _dt.datetime:
    """Naive *local* datetime of the virtual clock (repid uses naive datetime.now() everywhere and
    .timestamp() on them, so the naive value must be local time of the epoch instant)."""
    us = CLOCK.us if us is None else us
    return _dt.datetime.fromtimestamp(EPOCH_US // 1_000_000) + _dt.timedelta(
        microseconds=us + EPOCH_US % 1_000_000
    )


def us_of(d: _dt.datetime) -> int:
    """Inverse of wall(): virtual microseconds of a naive datetime produced under the virtual clock."""
    delta = d.replace(tzinfo=None) - wall(0)
    return delta.days * 86_400_000_000 + delta.seconds * 1_000_000 + delta.microseconds


class VDatetime(_dt.datetime):
    @classmethod
    def now(cls, tz=None):  # type: ignore[override]
        d = wall()
        r = cls(d.year, d.month, d.day, d.hour, d.minute, d.second, d.microsecond)
        if tz is None:
            return r
        return _dt.datetime.fromtimestamp(CLOCK.time(), tz)

    @classmethod
    def utcnow(cls):  # type: ignore[override]
        d = _BASE + _dt.timedelta(microseconds=EPOCH_US + CLOCK.us)
        return cls(d.year, d.month, d.day, d.hour, d.minute, d.second, d.microsecond)


class _VTimeModule(types.ModuleType):
    def __init__(self) -> None:
        super().__init__("time")
        for k in dir(_time):
            if not k.startswith("__"):
                setattr(self, k, getattr(_time, k))
        self.time = CLOCK.time
        self.time_ns = CLOCK.time_ns
        self.monotonic = CLOCK.monotonic


VTIME = _VTimeModule()


def patch_repid() -> int:
    """Rebind every repid module global that *is* datetime.datetime / the time module / time.time
    to its virtual twin.  Returns the number of bindings changed (idempotent)."""
    n = 0
    for name, mod in list(sys.modules.items()):
        if not (name == "repid" or name.startswith("repid.")) or mod is None:
            continue
        for k, v in list(vars(mod).items()):
            if v is _dt.datetime:
                setattr(mod, k, VDatetime)
                n += 1
            elif v is _time:
                setattr(mod, k, VTIME)
                n += 1
            elif v is _time.time:
                setattr(mod, k, CLOCK.time)
                n += 1
            elif v is _time.time_ns:
                setattr(mod, k, CLOCK.time_ns)
                n += 1
    return n


CURRENT_CALL: contextvars.ContextVar = contextvars.ContextVar("verif_current_call", default=None)


class VLoop(asyncio.SelectorEventLoop):
    """Event loop on virtual time.  ``steps`` counts executed handles; ``after_handle(handle)`` is
    called after each one (state projection, injection)."""

    def __init__(self) -> None:
        super().__init__()
        self.steps = 0
        self.after_handle = None
        self.idle_hook = None
        self.set_task_factory(
            lambda loop, coro, **kw: asyncio.tasks._PyTask(coro, loop=loop, **kw)  # type: ignore[attr-defined]
        )

    def time(self) -> float:
        return CLOCK.us / 1e6

    # -- signals: the handlers a program registers are kept; deliver_signal() runs one as the loop would on a real signal --
    def add_signal_handler(self, sig, callback, *args):  # type: ignore[override]
        self.sig_handlers = getattr(self, "sig_handlers", {})
        self.sig_handlers[sig] = (callback, args)

    def remove_signal_handler(self, sig):  # type: ignore[override]
        return getattr(self, "sig_handlers", {}).pop(sig, None) is not None

    def deliver_signal(self, sig=None) -> bool:
        hs = getattr(self, "sig_handlers", {})
        if sig is None and hs:
            sig = next(iter(hs))
        if sig not in hs:
            return False
        cb, args = hs[sig]
        self.call_soon(cb, *args)
        return True

    # -- listening sockets are replaced by a recording fake (C20): the protocol factory is kept so
    #    that connections can be hand-fed, open/close of the "port" is observable -----------------
    async def create_server(self, protocol_factory, host=None, port=None, **kw):  # type: ignore[override]
        srv = FakeServer(protocol_factory, host, port)
        self.fake_servers = getattr(self, "fake_servers", [])
        self.fake_servers.append(srv)
        return srv

    def _run_once(self) -> None:  # noqa: C901
        sched = self._scheduled
        while sched and sched[0]._cancelled:
            h = heapq.heappop(sched)
            h._scheduled = False
        if not self._ready and self.idle_hook is not None:
            self.idle_hook()          # e.g. the fake servers' scheduler releases one pending round trip
        if not self._ready and sched:
            when_us = int(round(sched[0]._when * 1e6))
            if when_us > CLOCK.us:
                CLOCK.us = when_us
        timeout = 0 if (self._ready or self._stopping or sched) else None
        event_list = self._selector.select(timeout)
        self._process_events(event_list)
        end_time = self.time() + self._clock_resolution
        while sched:
            h = sched[0]
            if h._when >= end_time:
                break
            h = heapq.heappop(sched)
            h._scheduled = False
            self._ready.append(h)
        for _ in range(len(self._ready)):
            h = self._ready.popleft()
            if h._cancelled:
                continue
            self.steps += 1
            h._run()
            if self.after_handle is not None:
                self.after_handle(h)
        h = None


class FakeServer:
    """listening socket of loop.create_server: the protocol factory is kept, connections are hand-fed (connect()).
    wait_closed() has the meaning it has since Python 3.12: it returns once the server is closed AND every connection it
    accepted is gone."""

    def __init__(self, factory, host, port) -> None:
        self.factory, self.host, self.port = factory, host, port
        self.serving = True        # loop.create_server(start_serving=True) listens at once
        self.closed = False
        self.connections: set = set()
        self._waiters: list = []

    def is_serving(self) -> bool:
        return self.serving

    async def start_serving(self) -> None:
        if not self.closed:
            self.serving = True

    def connect(self):
        """a client connects: (protocol, transport)"""
        p = self.factory()
        t = FakeTransport(self, p)
        self.connections.add(t)
        p.connection_made(t)
        return p, t

    def _detach(self, t) -> None:
        self.connections.discard(t)
        if self.closed and not self.connections:
            for w in self._waiters:
                if not w.done():
                    w.set_result(None)
            self._waiters.clear()

    def close(self) -> None:
        self.serving = False
        self.closed = True
        self._detach(None)

    async def wait_closed(self) -> None:
        await asyncio.sleep(0)
        if not self.closed or not self.connections:
            return
        w = asyncio.get_event_loop().create_future()
        self._waiters.append(w)
        await w


class FakeTransport:
    def __init__(self, server=None, protocol=None) -> None:
        self.written = b""
        self.closed = False
        self.server, self.protocol = server, protocol

    def write(self, data: bytes) -> None:
        if not self.closed:
            self.written += data

    def close(self) -> None:
        if self.closed:
            return
        self.closed = True
        if self.server is not None:
            # like a socket transport: connection_lost is called soon after, then the server forgets the connection
            def lost():
                try:
                    self.protocol.connection_lost(None)
                finally:
                    self.server._detach(self)
            try:
                asyncio.get_event_loop().call_soon(lost)
            except RuntimeError:
                lost()

    def abort(self) -> None:
        self.close()

    def is_closing(self) -> bool:
        return self.closed

    def is_closing(self) -> bool:
        return self.closed

    def abort(self) -> None:
        self.closed = True

    def get_extra_info(self, name, default=None):
        return default


def run(coro_fn, *args, timeout_steps: int | None = None, **kw):
    """Run ``coro_fn(loop, *args)`` to completion on a fresh virtual loop with the clock at 0."""
    CLOCK.us = 0
    loop = VLoop()
    loop.set_exception_handler(lambda lp, ctx: None)   # unretrieved task exceptions are the scenario's business
    asyncio.set_event_loop(loop)
    try:
        return loop.run_until_complete(coro_fn(loop, *args, **kw))
    finally:
        try:
            pending = [t for t in asyncio.all_tasks(loop) if not t.done()]
            for t in pending:
                t.cancel()
            if pending:
                loop.after_handle = None
                loop.run_until_complete(asyncio.gather(*pending, return_exceptions=True))
        except BaseException:  # noqa: BLE001
            pass
        loop.close()
        asyncio.set_event_loop(None)


async def settle(n: int = 30) -> None:
    for _ in range(n):
        await asyncio.sleep(0)


_SETUP = False


def setup() -> None:
    """Import every repid module the harness touches, then rebind their clocks.  Idempotent."""
    global _SETUP
    import importlib
    import os
    import pkgutil

    if not _SETUP:
        os.environ["TZ"] = "UTC"
        _time.tzset()
        import repid  # noqa: F401
        for m in pkgutil.walk_packages(repid.__path__, "repid."):
            if ".testing" in m.name:
                continue
            try:
                importlib.import_module(m.name)
            except Exception:  # noqa: BLE001  (optional back-ends)
                pass
        _SETUP = True
    patch_repid()
