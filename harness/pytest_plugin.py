"""pytest plugin: the repository's own test suite as a source of traces.

    cd /repo && PYTHONPATH=/verif:/repo TZ=UTC VERIF_TRACE_OUT=<file> /venv/bin/python -m pytest -p harness.pytest_plugin tests/...

Every Connection the suite builds around an InMemoryMessageBroker gets the recorder (call events + observed
moves after every event-loop step); the loop is the suite's own real-time loop with a per-step hook.  At the
end of the session all recorded executions are written to VERIF_TRACE_OUT; `checks/suite_traces.py` validates
them against the broker contract (guidance: existing tests exercise behaviour their assertions do not check)."""
from __future__ import annotations

import asyncio
import json
import os
import time

from harness import vloop
from harness.record import Recorder, inmem_projector, inmem_signature

RECORDERS: list = []


def _observe_all(h):
    # every recorder whose broker is still in use (the last LIVE ones: one connection per test)
    for rec in RECORDERS[-LIVE:]:
        if not getattr(rec, "closed", False):
            rec.observe(h)


LIVE = 4


class HookLoop(asyncio.SelectorEventLoop):
    """real-time selector loop that runs its ready handles one at a time and calls after_handle after each"""

    def __init__(self) -> None:
        super().__init__()
        self.steps = 0
        self.after_handle = _observe_all
        self.idle_hook = None
        self.set_task_factory(lambda loop, coro, **kw: asyncio.tasks._PyTask(coro, loop=loop, **kw))  # type: ignore[attr-defined]

    def _run_once(self):
        # let the base class collect timers / IO, but run the ready handles ourselves
        ready = self._ready
        n_before = len(ready)
        if n_before == 0:
            super()._run_once()          # blocks in select() as usual; runs what became ready
            self._tick()
            return
        for _ in range(n_before):
            h = ready.popleft()
            if h._cancelled:
                continue
            self.steps += 1
            vloop.CLOCK.us = int(time.time() * 1e6) - vloop.EPOCH_US
            h._run()
            if self.after_handle is not None:
                self.after_handle(h)
        h = None

    def _tick(self):
        vloop.CLOCK.us = int(time.time() * 1e6) - vloop.EPOCH_US
        if self.after_handle is not None:
            self.after_handle(None)


class Policy(asyncio.DefaultEventLoopPolicy):
    def new_event_loop(self):
        return HookLoop()


def pytest_configure(config):
    os.environ.setdefault("TZ", "UTC")
    time.tzset()
    asyncio.set_event_loop_policy(Policy())
    import repid.connection as rc
    from repid.connections.in_memory.message_broker import InMemoryMessageBroker
    orig_post = rc.Connection.__post_init__

    def post_init(self):
        orig_post(self)
        b = self.message_broker
        if isinstance(b, InMemoryMessageBroker) and not getattr(b, "_verif_recorded", False):
            b._verif_recorded = True
            rec = Recorder(latency_us=None)
            rec.wrap_broker(b)
            rec.projectors.append(inmem_projector(b))
            rec.signatures.append(inmem_signature(b))
            RECORDERS.append(rec)
            orig_disc = b.disconnect

            async def disconnect():
                # the in-memory store ends with the connection: last observation, then stop observing
                if not getattr(rec, "closed", False):
                    try:
                        rec.obs()
                    finally:
                        rec.closed = True
                await orig_disc()
            b.disconnect = disconnect
    rc.Connection.__post_init__ = post_init


def pytest_sessionfinish(session, exitstatus):
    out = os.environ.get("VERIF_TRACE_OUT")
    if not out:
        return
    traces = []
    for rec in RECORDERS:
        if sum(1 for e in rec.events if e["e"] == "move") == 0:
            continue
        if not getattr(rec, "closed", False):
            try:
                rec.obs()
            except Exception:  # noqa: BLE001
                pass
        traces.append(rec.trace(chk=["holder", "content"]))
    with open(out, "w") as f:
        json.dump(traces, f)
