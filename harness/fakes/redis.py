"""Command-level in-process fake of the Redis server, implementing exactly the commands repid
issues, with the client surface of redis.asyncio that repid uses.  Every server round trip is a
*gate*: by default one event-loop yield; with a Scheduler attached the harness decides which of
the pending round trips is applied next (seeded RNG), which is the interleaving granularity.
Fidelity of this fake to a real Redis server is a trusted assumption (DESIGN.md section 9)."""
from __future__ import annotations

import asyncio
import fnmatch
from datetime import datetime

from .. import vloop


class Server:
    def __init__(self) -> None:
        self.d: dict = {}
        self.exp: dict = {}      # key -> absolute unix time (seconds) of expiry
        self.ncmd = 0

    # -- helpers ---------------------------------------------------------------------------
    def _alive(self, k):
        e = self.exp.get(k)
        if e is not None and vloop.CLOCK.time() >= e:
            self.d.pop(k, None)
            self.exp.pop(k, None)
        return k in self.d

    def _gc(self, k):
        if k in self.d and not isinstance(self.d[k], bytes) and not self.d[k]:
            del self.d[k]

    @staticmethod
    def _b(v):
        if isinstance(v, bytes):
            return v
        if isinstance(v, (int, float)):
            return str(v).encode()
        return str(v).encode()

    def zsorted(self, k):
        return sorted(self.d.get(k, {}).items(), key=lambda kv: (kv[1], kv[0]))

    # -- commands --------------------------------------------------------------------------
    def c_ping(self):
        return True

    def c_lpush(self, k, *vs):
        lst = self.d.setdefault(k, [])
        for v in vs:
            lst.insert(0, self._b(v))
        return len(lst)

    def c_rpush(self, k, *vs):
        lst = self.d.setdefault(k, [])
        for v in vs:
            lst.append(self._b(v))
        return len(lst)

    def c_lrange(self, k, s, e):
        lst = self.d.get(k, [])
        n = len(lst)
        if s < 0:
            s = max(n + s, 0)
        if e < 0:
            e = n + e
        if e < 0 or s > e:
            return []
        return list(lst[s:e + 1])

    def c_lrem(self, k, count, v):
        lst = self.d.get(k, [])
        v = self._b(v)
        removed = 0
        idxs = range(len(lst) - 1, -1, -1) if count < 0 else range(len(lst))
        limit = abs(count) if count != 0 else len(lst)
        todel = []
        for i in idxs:
            if lst[i] == v and removed < limit:
                todel.append(i)
                removed += 1
        for i in sorted(todel, reverse=True):
            del lst[i]
        self._gc(k)
        return removed

    def c_zadd(self, k, mapping):
        z = self.d.setdefault(k, {})
        added = 0
        for m, s in mapping.items():
            m = self._b(m)
            if m not in z:
                added += 1
            z[m] = float(s)
        return added

    def c_zrem(self, k, *ms):
        z = self.d.get(k, {})
        r = 0
        for m in ms:
            if z.pop(self._b(m), None) is not None:
                r += 1
        self._gc(k)
        return r

    def c_zrange(self, k, start, end, byscore=False, offset=None, num=None, **kw):
        items = self.zsorted(k)
        if byscore:
            lo = float("-inf") if start in ("-inf", b"-inf") else float(start)
            hi = float("inf") if end in ("+inf", "inf") else float(end)
            sel = [m for m, s in items if lo <= s <= hi]
            if offset is not None and num is not None:
                sel = sel[offset:offset + num] if num >= 0 else sel[offset:]
            return sel
        n = len(items)
        s = start if start >= 0 else max(n + start, 0)
        e = end if end >= 0 else n + end
        return [m for m, _ in items[s:e + 1]]

    def c_hsetnx(self, k, f, v):
        h = self.d.setdefault(k, {})
        if f in h:
            return 0
        h[f] = self._b(v)
        return 1

    def c_hset(self, k, key=None, value=None, mapping=None):
        h = self.d.setdefault(k, {})
        n = 0
        if key is not None:
            n += key not in h
            h[key] = self._b(value)
        for f, v in (mapping or {}).items():
            n += f not in h
            h[f] = self._b(v)
        return n

    def c_hdel(self, k, *fs):
        h = self.d.get(k, {})
        r = sum(1 for f in fs if h.pop(f, None) is not None)
        self._gc(k)
        return r

    def c_hget(self, k, f):
        h = self.d.get(k, {})
        return h.get(f) if isinstance(h, dict) else None

    def c_hmget(self, k, keys):
        h = self.d.get(k, {})
        return [h.get(f) for f in keys]

    def c_delete(self, *ks):
        r = 0
        for k in ks:
            k = k.decode() if isinstance(k, bytes) else k
            if self.d.pop(k, None) is not None:
                r += 1
            self.exp.pop(k, None)
        return r

    def c_get(self, k):
        return self.d.get(k) if self._alive(k) else None

    def c_set(self, k, v, exat=None, **kw):
        self.d[k] = self._b(v)
        if exat is None:
            self.exp.pop(k, None)
        else:
            self.exp[k] = exat.timestamp() if isinstance(exat, datetime) else float(exat)
        return True

    def keys(self, pat):
        return [k for k in list(self.d) if fnmatch.fnmatchcase(k, pat)]

    def apply(self, name, a, kw):
        self.ncmd += 1
        if a and isinstance(a[0], bytes) and name != "delete":     # key names: bytes and str are the same key
            a = (a[0].decode(),) + tuple(a[1:])
        return getattr(self, "c_" + name)(*a, **kw)


class Scheduler:
    """decides which pending round trip is applied next (seeded)"""

    def __init__(self, rng) -> None:
        self.rng = rng
        self.pending: list = []
        self.choices: list = []

    def release_one(self) -> bool:
        self.pending = [(f, lb) for (f, lb) in self.pending if not f.done()]     # (cancelled waiters)
        if not self.pending:
            return False
        k = self.rng.randrange(len(self.pending))
        fut, label = self.pending.pop(k)
        self.choices.append(label)
        fut.set_result(None)
        return True


class Pipe:
    def __init__(self, cl) -> None:
        self.cl = cl
        self.q: list = []

    async def __aenter__(self):
        return self

    async def __aexit__(self, *e):
        self.q = []
        return False

    def __getattr__(self, name):
        if name.startswith("_"):
            raise AttributeError(name)

        def f(*a, **kw):
            self.q.append((name, a, kw))
            return self
        return f

    async def execute(self):
        q, self.q = self.q, []
        await self.cl.gate("MULTI " + " ".join(n for n, _, _ in q))
        res = [self.cl.srv.apply(n, a, kw) for n, a, kw in q]     # atomically: no await in between
        await self.cl.after()
        return res


class Client:
    """the surface of redis.asyncio.Redis that repid calls"""

    def __init__(self, srv: Server, name: str = "cl", scheduler: Scheduler | None = None) -> None:
        self.srv, self.name, self.scheduler = srv, name, scheduler
        self.dead = False        # a "killed process": its client never talks to the server again

    async def gate(self, label: str) -> None:
        if self.dead:
            await asyncio.get_running_loop().create_future()      # never resolved
        if self.scheduler is None:
            await asyncio.sleep(0)
        else:
            fut = asyncio.get_running_loop().create_future()
            self.scheduler.pending.append((fut, f"{self.name}:{label}"))
            await fut

    async def after(self) -> None:
        await asyncio.sleep(0)

    def pipeline(self, transaction: bool = True):
        return Pipe(self)

    async def aclose(self, close_connection_pool: bool = True) -> None:
        await asyncio.sleep(0)

    async def _cmd(self, name, *a, **kw):
        await self.gate(name)
        r = self.srv.apply(name, a, kw)
        await self.after()
        return r

    def __getattr__(self, name):
        if name.startswith("_") or name in ("scan_iter", "zscan_iter"):
            raise AttributeError(name)

        async def f(*a, **kw):
            return await self._cmd(name, *a, **kw)
        return f

    async def scan_iter(self, match: str):
        await self.gate("scan")
        for k in self.srv.keys(match):
            yield k.encode()

    async def zscan_iter(self, k):
        await self.gate("zscan")
        for m, s in self.srv.zsorted(k):
            yield (m, s)


def projector(srv: Server):
    """id -> [n, d, x, p] occurrence counts over the server's keys (message short name = topic:id)"""
    def proj():
        out: dict = {}

        def add(member, j):
            name = member.decode() if isinstance(member, bytes) else member
            id_ = name.split(":")[-1]
            out.setdefault(id_, [0, 0, 0, 0])[j] += 1
        for k, v in list(srv.d.items()):
            if k.startswith("q:"):
                marker = k.split(":")[-1]
                if marker == "n":
                    for m in v:
                        add(m, 0)
                elif marker == "d":
                    for m in v:
                        add(m, 1)
                elif marker == "dead":
                    for m in v:
                        add(m, 2)
            elif k == "processing":
                for m in v:
                    add(m, 3)
        return out
    return proj


def signature(srv: Server):
    return lambda: srv.ncmd


def make_broker(srv: Server, name: str = "cl", scheduler: Scheduler | None = None):
    from repid import RedisMessageBroker
    b = RedisMessageBroker("redis://fake")
    b.conn = Client(srv, name, scheduler)
    return b
