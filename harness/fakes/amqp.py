"""In-process fake of the part of RabbitMQ (and of the aiormq client surface) that repid uses.
Server model, written from the documented behaviour of classic queues:
  * priority queues (x-max-priority): higher priority first, FIFO within a priority
  * per-message TTL (`expiration`): a message expires only when it reaches the HEAD of its queue;
    expired messages are dead-lettered through the default exchange to x-dead-letter-routing-key
    (or dropped if the queue has none), their expiration property removed
  * basic.nack / basic.reject with requeue=False: dead-lettered the same way; requeue=True: back to
    its original position (front of its priority)
  * basic.qos(prefetch_count) with global=False applies to consumers created afterwards
  * unacked deliveries of a channel are requeued when the channel / connection closes
  * consumer callbacks are started as tasks, like aiormq does
Every client method is one round trip (one event-loop yield).  Fidelity is a trusted assumption."""
from __future__ import annotations

import asyncio
import copy
import itertools

import aiormq
from aiormq.abc import DeliveredMessage
from pamqp import commands as spec
from pamqp.header import ContentHeader

from .. import vloop


class Msg:
    _seq = itertools.count(1)

    def __init__(self, body, props, expire_us):
        self.body, self.props, self.expire_us = body, props, expire_us
        self.seq = next(Msg._seq)
        self.redelivered = False

    @property
    def prio(self):
        return self.props.priority or 0

    @property
    def id(self):
        return self.props.message_id


class Server:
    def __init__(self) -> None:
        self.queues: dict[str, dict] = {}     # name -> {"args": {...}, "msgs": [Msg]}
        self.consumers: list = []             # dicts: channel, tag, queue, callback, prefetch, unacked(set of tags)
        self.nops = 0
        self.channels: list = []
        self._timer = None
        self.dropped: list = []

    # -- queues ----------------------------------------------------------------------------
    def declare(self, name, args):
        self.queues.setdefault(name, {"args": dict(args or {}), "msgs": []})

    def put(self, qname, msg: Msg, front: bool = False):
        q = self.queues.get(qname)
        if q is None:
            self.dropped.append(msg.id)          # unroutable (mandatory publish would be returned)
            return False
        msgs = q["msgs"]
        if front:
            k = next((n for n, m in enumerate(msgs) if m.prio <= msg.prio), len(msgs))
        else:
            k = next((n for n, m in enumerate(msgs) if m.prio < msg.prio), len(msgs))
        msgs.insert(k, msg)
        return True

    def dead_letter(self, qname, msg: Msg):
        args = self.queues[qname]["args"]
        rk = args.get("x-dead-letter-routing-key")
        if "x-dead-letter-exchange" not in args or rk is None:
            self.dropped.append(msg.id)
            return
        p = copy.copy(msg.props)
        p.expiration = None
        self.put(rk, Msg(msg.body, p, None))

    # -- the server's own activity ---------------------------------------------------------
    def _can_deliver(self, c, now):
        q = self.queues.get(c["queue"])
        if q is None or c["channel"].closed or not q["msgs"]:
            return False
        if not (c["prefetch"] == 0 or len(c["unacked"]) < c["prefetch"]):
            return False
        h = q["msgs"][0]
        return not (h.expire_us is not None and h.expire_us <= now)

    def pump(self):
        """expiry at the queue heads now; deliveries one per event-loop step, each in the context of the consumer that
        receives it (so that an observer can tell who took the message)"""
        self.nops += 1
        now = vloop.CLOCK.us
        changed = True
        while changed:
            changed = False
            for name, q in list(self.queues.items()):
                while q["msgs"] and q["msgs"][0].expire_us is not None and q["msgs"][0].expire_us <= now:
                    self.dead_letter(name, q["msgs"].pop(0))       # expiry at the head of the queue only
                    changed = True
        loop = asyncio.get_event_loop()
        for c in self.consumers:
            if not c.get("tick") and self._can_deliver(c, now):
                c["tick"] = True
                loop.call_soon(self._tick, c, context=c["ctx"])
        self._arm()

    def _tick(self, c):
        c["tick"] = False
        if c in self.consumers and self._can_deliver(c, vloop.CLOCK.us):
            m = self.queues[c["queue"]]["msgs"].pop(0)
            c["channel"].deliver(c, m)
        self.pump()

    def _arm(self):
        loop = asyncio.get_event_loop()
        nxt = min((q["msgs"][0].expire_us for q in self.queues.values() if q["msgs"] and q["msgs"][0].expire_us is not None), default=None)
        if self._timer is not None:
            self._timer.cancel()
            self._timer = None
        if nxt is not None:
            self._timer = loop.call_at(max(nxt, vloop.CLOCK.us + 1) / 1e6, self.pump)


class Channel:
    _tags = itertools.count(1)

    def __init__(self, srv: Server, conn) -> None:
        self.srv, self.conn = srv, conn
        self.consumers: dict = {}
        self.closed = False
        self.prefetch = 0
        self.ntag = 0
        self.unacked: dict[int, tuple] = {}      # delivery tag -> (consumer, queue name, Msg)

    @property
    def is_closed(self) -> bool:
        return self.closed

    async def _rt(self):
        await asyncio.sleep(0)

    def deliver(self, c, m: Msg):
        self.ntag += 1
        tag = self.ntag
        self.unacked[tag] = (c, c["queue"], m)
        c["unacked"].add(tag)
        dm = DeliveredMessage(
            delivery=spec.Basic.Deliver(consumer_tag=c["tag"], delivery_tag=tag, redelivered=m.redelivered, exchange="", routing_key=c["queue"]),
            header=ContentHeader(body_size=len(m.body), properties=copy.copy(m.props)), body=m.body, channel=self)
        cb = self.consumers.get(c["tag"])
        if cb is not None:
            asyncio.get_event_loop().create_task(cb(dm))

    def _settle(self, tag):
        ent = self.unacked.pop(tag, None)
        if ent is not None:
            ent[0]["unacked"].discard(tag)
        return ent

    async def basic_publish(self, body, *, routing_key="", exchange="", properties=None, mandatory=False, **kw):
        await self._rt()
        props = properties or spec.Basic.Properties()
        exp = None
        if props.expiration is not None:
            exp = vloop.CLOCK.us + int(props.expiration) * 1000
        ok = self.srv.put(routing_key, Msg(body, copy.copy(props), exp))
        self.srv.pump()
        await self._rt()
        return spec.Basic.Ack() if ok or not mandatory else spec.Basic.Return()

    def _tag_range(self, delivery_tag, multiple):
        """AMQP: with multiple=True the tag stands for every unsettled delivery of this channel up to and including it"""
        if not multiple:
            return [delivery_tag]
        return sorted(t for t in self.unacked if t <= delivery_tag)

    async def basic_ack(self, delivery_tag, multiple=False, **kw):
        await self._rt()
        for t in self._tag_range(delivery_tag, multiple):
            self._settle(t)
        self.srv.pump()

    async def basic_nack(self, delivery_tag, multiple=False, requeue=True, **kw):
        await self._rt()
        for t in reversed(self._tag_range(delivery_tag, multiple)):
            ent = self._settle(t)
            if ent is not None:
                _, qname, m = ent
                if requeue:
                    m.redelivered = True
                    self.srv.put(qname, m, front=True)
                else:
                    self.srv.dead_letter(qname, m)
        self.srv.pump()

    async def basic_reject(self, delivery_tag, requeue=True, **kw):
        await self.basic_nack(delivery_tag, requeue=requeue)

    async def basic_qos(self, *, prefetch_size=0, prefetch_count=0, global_=False, **kw):
        await self._rt()
        self.prefetch = prefetch_count or 0       # (global=False: applies to consumers created from now on)

    async def basic_consume(self, queue, consumer_callback, *, no_ack=False, consumer_tag=None, **kw):
        await self._rt()
        tag = consumer_tag or f"ctag{next(Channel._tags)}"
        self.consumers[tag] = consumer_callback
        import contextvars
        self.srv.consumers.append({"channel": self, "tag": tag, "queue": queue, "prefetch": self.prefetch, "unacked": set(),
                                   "ctx": contextvars.copy_context(), "tick": False})
        self.srv.pump()
        return spec.Basic.ConsumeOk(consumer_tag=tag)

    async def basic_cancel(self, consumer_tag, **kw):
        await self._rt()
        self.srv.consumers = [c for c in self.srv.consumers if not (c["channel"] is self and c["tag"] == consumer_tag)]
        if consumer_tag in self.consumers:
            self.consumers.pop(consumer_tag, None)       # (repid's _Consumers.pop signals the consumer object)
        return spec.Basic.CancelOk(consumer_tag=consumer_tag)

    async def queue_declare(self, queue="", *, durable=False, arguments=None, **kw):
        await self._rt()
        self.srv.declare(queue, arguments)
        return spec.Queue.DeclareOk(queue=queue, message_count=len(self.srv.queues[queue]["msgs"]), consumer_count=0)

    async def queue_purge(self, queue="", **kw):
        await self._rt()
        if queue in self.srv.queues:
            self.srv.queues[queue]["msgs"] = []
        return spec.Queue.PurgeOk()

    async def queue_delete(self, queue="", **kw):
        await self._rt()
        self.srv.queues.pop(queue, None)
        return spec.Queue.DeleteOk()

    def close_now(self):
        """requeue everything unacked on this channel, drop its consumers"""
        self.closed = True
        self.srv.consumers = [c for c in self.srv.consumers if c["channel"] is not self]
        for tag in sorted(self.unacked):
            _, qname, m = self.unacked[tag]
            m.redelivered = True
            self.srv.put(qname, m, front=True)
        self.unacked.clear()
        self.srv.pump()


class Connection:
    def __init__(self, srv: Server) -> None:
        self.srv = srv
        self.channels: list[Channel] = []
        self.closed = False

    async def channel(self, *a, **kw):
        await asyncio.sleep(0)
        ch = Channel(self.srv, self)
        self.channels.append(ch)
        self.srv.channels.append(ch)
        return ch

    async def close(self, *a, **kw):
        await asyncio.sleep(0)
        self.closed = True
        for ch in self.channels:
            if not ch.closed:
                ch.close_now()

    @property
    def is_closed(self):
        return self.closed


_SERVERS: dict[str, Server] = {}


def install(dsn: str, srv: Server):
    """aiormq.connect(dsn) returns a connection to the fake server registered for this dsn"""
    _SERVERS[dsn] = srv

    async def connect(url, *a, **kw):
        await asyncio.sleep(0)
        return Connection(_SERVERS[str(url)])
    aiormq.connect = connect


def projector(srv: Server, queue_names=None):
    """id -> [n, d, x, p]: main queue / <q>:delayed / <q>:dead / unacked on any open channel"""
    def proj():
        out: dict = {}
        for name, q in srv.queues.items():
            j = 1 if name.endswith(":delayed") else 2 if name.endswith(":dead") else 0
            for m in q["msgs"]:
                out.setdefault(m.id, [0, 0, 0, 0])[j] += 1
        for ch in srv.channels:
            if ch.closed:
                continue
            for (_, _, m) in ch.unacked.values():
                out.setdefault(m.id, [0, 0, 0, 0])[3] += 1
        return out
    return proj


def signature(srv: Server):
    return lambda: (srv.nops, vloop.CLOCK.us)
