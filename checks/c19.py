"""C19: schedule arithmetic.  TLC checks Monotone/InRange/OnGrid/Window/UntilWins over the whole
bounded domain (MC_Schedule); Apalache checks Window/OnGrid/Cadence for unbounded integers; every
input of the bounded domain (at four unit scales) is evaluated on the real functions under a
pinned clock and TLC checks got = operator(input) (Trace_Schedule).  Magnitudes TLC cannot
represent are sampled: the same formulas evaluated on the real functions' outputs."""
from __future__ import annotations

import random
import shutil
import subprocess
import time
from datetime import timedelta

from checks.common import Check
from harness import tlc, vloop


def apalache(ck: Check) -> None:
    d = tlc.scratch("apa")
    try:
        shutil.copy(tlc.SPEC / "APA_Schedule.tla", d / "APA_Schedule.tla")
        t0 = time.time()
        p = subprocess.run(["apalache-mc", "check", "--inv=Inv", "--length=0", f"--out-dir={d}/out", "APA_Schedule.tla"],
                           cwd=d, capture_output=True, text=True, timeout=600)
        out = p.stdout + p.stderr
        if "The outcome is: NoError" not in out:
            raise tlc.MachineryError("Apalache did not prove APA_Schedule!Inv:\n" + out[-2000:])
        ck.notes["apalache"] = {"inv": "Window /\\ OnGrid /\\ Cadence over unbounded Int", "outcome": "NoError",
                                "wall_s": round(time.time() - t0, 1)}
        ck.tlc_runs.append({"what": "apalache-mc check --inv=Inv --length=0 APA_Schedule.tla (unbounded integers)", "outcome": "NoError"})
    finally:
        shutil.rmtree(d, ignore_errors=True)


def real_backoff(k, mn, mx, mult, maxexp):
    from repid.retry_policy import default_retry_policy_factory
    td = default_retry_policy_factory(mn, mx, mult, maxexp)(k)
    return td


def real_next(base_us, now_us, p_us, until_us, anchored):
    from repid.data._parameters import DelayProperties, Parameters
    vloop.CLOCK.us = now_us
    base = vloop.wall(base_us)
    kw = {"defer_by": timedelta(microseconds=p_us)}
    if until_us is not None:
        kw["delay_until"] = vloop.wall(until_us)
    if anchored:   # grid anchored at the scheduled time of the iteration that ran (reschedule path)
        p = Parameters(timestamp=vloop.wall(base_us - 12345), delay=DelayProperties(next_execution_time=base, **kw))
    else:
        p = Parameters(timestamp=base, delay=DelayProperties(**kw))
    return vloop.us_of(p.compute_next_execution_time)


def real_overdue(kind, now_us, ts_us, ttl_us):
    from repid import Job
    from repid.data._buckets import ArgsBucket, ResultBucket
    from repid.data._parameters import Parameters
    vloop.CLOCK.us = now_us
    ts, ttl = vloop.wall(ts_us), timedelta(microseconds=ttl_us)
    if kind == "params":
        return Parameters(timestamp=ts, ttl=ttl).is_overdue
    if kind == "args":
        return ArgsBucket(data="", timestamp=ts, ttl=ttl).is_overdue
    if kind == "result":
        return ResultBucket(data="", started_when=0, finished_when=0, timestamp=ts, ttl=ttl).is_overdue
    raise ValueError(kind)


def job_overdue(now_us, ts_us, ttl_us):
    from repid import Connection, InMemoryMessageBroker, Job
    vloop.CLOCK.us = ts_us
    j = Job("x", ttl=timedelta(microseconds=ttl_us), _connection=Connection(InMemoryMessageBroker()))
    vloop.CLOCK.us = now_us
    return j.is_overdue


def run(tier: str, seed: int, replay=None) -> int:
    vloop.setup()
    ck = Check("C19", tier, seed)
    ck.rule = ("bounded domain enumerated exhaustively (k 1..12 x min<=max in {1,2,5,10,40} x mult 1..6 x maxexp 1..8; base,now 0..24 x P 1..6 "
               "x 5 deferred_until positions; now,ts 0..6 x ttl 0..3 x 4 implementations), each NextExec/Overdue case at unit scales "
               "1 us / 1 ms / 1 s / 1 day and with the grid anchored at timestamp or at the scheduled time; plus seeded random large-magnitude cases "
               "(retry numbers to 10^6, back-offs to 10^9 s, microsecond timestamps) on which the property formulas are evaluated directly; "
               "non-trivial = the clamp / grid boundary is actually hit or straddled")
    r = tlc.run_tlc("MC_Schedule", "MC_Schedule.cfg", timeout=900)
    if not r.ok:
        ck.model_violation(r, "MC_Schedule")
    ck.add_tlc(r, "MC_Schedule: Monotone, InRange, OnGrid, Window, UntilWins, Overdue over the whole bounded domain")
    apalache(ck)
    # ---- binding: the real functions on every input of the domain -------------------------------
    cases, meta = [], []
    mins = [1, 2, 5, 10, 40]
    for k in range(1, 13):
        for mn in mins:
            for mx in mins:
                if mn > mx:
                    continue
                for mult in range(1, 7):
                    for me in range(1, 9):
                        td = real_backoff(k, mn, mx, mult, me)
                        got = td.days * 86400 + td.seconds
                        cases.append([{"t": "bo", "k": k, "mn": mn, "mx": mx, "mult": mult, "maxexp": me, "got": got if td.microseconds == 0 else -1}])
                        meta.append(("bo", k, mn, mx, mult, me))
                        ck.case(("bo", k, mn, mx, mult, me), nontrivial=(mult * 2 ** min(k, me) >= mx or mult * 2 ** min(k, me) <= mn or k >= me))
    scales = [1, 1000, 1_000_000, 86_400_000_000] if tier == "thorough" else [1, 1_000_000]
    step = 1 if tier == "thorough" else 1
    for sc in scales:
        for base in range(0, 25, step):
            for now in range(0, 25, step):
                for P in range(1, 7):
                    if sc < 1_000_000 and False:
                        continue
                    for du in range(5):
                        if tier == "quick" and du in (1, 4) and (base + now) % 3:
                            continue
                        until = {0: None, 1: now - 1, 2: now, 3: now + 1, 4: now + P + 2}[du]
                        for anchored in (False, True):
                            # Job requires defer_by >= 1 s, Parameters does not: all scales are legal here
                            off = 50 * sc    # keep everything positive
                            got_us = real_next((base + 50) * sc, (now + 50) * sc, P * sc, None if until is None else (until + 50) * sc, anchored)
                            got = (got_us - off) // sc if (got_us - off) % sc == 0 else -999
                            cases.append([{"t": "ne", "base": base, "now": now, "P": P, "hasuntil": until is not None,
                                           "until": until if until is not None else 0, "got": got}])
                            meta.append(("ne", sc, base, now, P, until, anchored))
                            ck.case(("ne", sc, base, now, P, until, anchored), nontrivial=((now - base) % P == 0 or now < base or until is not None))
    for kind in ("params", "args", "result", "job"):
        for now in range(0, 7):
            for ts in range(0, 7):
                for ttl in range(1, 4):
                    for sc in ([1, 1_000_000] if kind != "job" else [1_000_000]):
                        if kind == "job":
                            got = job_overdue((now + 10) * sc, (ts + 10) * sc, ttl * sc)
                        else:
                            got = real_overdue(kind, (now + 10) * sc, (ts + 10) * sc, ttl * sc)
                        cases.append([{"t": "od", "now": now, "ts": ts, "ttl": ttl, "got": bool(got)}])
                        meta.append(("od", kind, sc, now, ts, ttl))
                        ck.case(("od", kind, sc, now, ts, ttl), nontrivial=abs(now - ts - ttl) <= 1)
    v = tlc.validate_traces("Trace_Schedule", "Trace_Schedule.cfg", cases, chunk=20000)
    ck.add_tlc(v.result, f"Trace_Schedule: {len(cases)} evaluations of the real functions compared with the operators")
    ck.traces += len(cases)
    ck.exhaustive = True
    ck.sample({"case": cases[0][0], "meaning": "default_retry_policy_factory(mn,mx,mult,maxexp)(k) in seconds"})
    ck.sample({"case": cases[len(cases) // 2][0], "meta": meta[len(cases) // 2]})
    for i in sorted(v.rejected)[:20]:
        ck.violation(f"real function disagrees with the Schedule operator on {meta[i]}: got {cases[i][0]['got']}",
                     {"check": "c19", "case": cases[i][0], "meta": list(map(str, meta[i]))})
    # self-test of the binding
    bad = [[dict(cases[0][0], got=cases[0][0]["got"] + 1)], [dict(cases[-1][0], got=not cases[-1][0]["got"])]]
    vb = tlc.validate_traces("Trace_Schedule", "Trace_Schedule.cfg", bad)
    if len(vb.rejected) != 2:
        raise tlc.MachineryError("binding self-test failed: corrupted evaluations accepted")
    # ---- magnitudes beyond TLC: same formulas, sampled ------------------------------------------
    rng = random.Random(seed)
    n = {"quick": 4000, "thorough": 60000}[tier]
    big = 0
    for _ in range(n):
        mn = rng.choice([1, 10, rng.randint(1, 10 ** 9)])
        mx = rng.randint(mn, 10 ** 9)
        mult = rng.choice([1, 5, rng.randint(1, 10 ** 6)])
        me = rng.choice([1, 15, 64, rng.randint(1, 200)])
        k = rng.choice([1, 2, 44, 47, rng.randint(1, 10 ** 6)])
        try:
            a = real_backoff(k, mn, mx, mult, me)
            b = real_backoff(k + 1, mn, mx, mult, me)
            ok = timedelta(seconds=mn) <= a <= timedelta(seconds=mx) and a <= b
            why = "out of range or not monotone"
        except Exception as e:  # noqa: BLE001  (OverflowError = "never overflows" violated)
            ok, why = False, f"{type(e).__name__}: {e}"
        big += 1
        if not ok:
            ck.violation(f"default back-off misbehaves for k={k} min={mn} max={mx} mult={mult} maxexp={me}: {why}",
                         {"check": "c19", "sample": [k, mn, mx, mult, me]})
            break
    for _ in range(n):
        P = rng.choice([1_000_000, 1_100_000, rng.randint(1_000_000, 10 ** 13)])
        base = rng.randint(0, 10 ** 15)
        now = rng.choice([base + rng.randint(-10 ** 13, 10 ** 14), base + P * rng.randint(-5, 1000), base])
        if now < 0:
            continue
        try:
            nx = real_next(base, now, P, None, rng.random() < 0.5)
            ok = now < nx <= now + P and (nx - base) % P == 0
            why = f"next={nx}"
        except Exception as e:  # noqa: BLE001
            ok, why = False, f"{type(e).__name__}: {e}"
        big += 1
        if not ok:
            ck.violation(f"next execution time misbehaves for base={base} now={now} P={P} (us): {why}",
                         {"check": "c19", "sample": [base, now, P]})
            break
    ck.notes["large_magnitude_samples"] = big
    ck.assumptions.append("large-magnitude half (beyond TLC's 32-bit integers) is property-based sampling, not model checking")
    return ck.finish()
