"""C07: what the producer enqueued is what the consumer receives.
  Codec.tla / MC_Codec : the validators' languages contain no ':' => Redis key encodings split back
                          unambiguously, the topic prefix filter selects exactly its topic (TLC, all
                          strings over symbol classes up to the bound)
  Trace_Codec          : the real VALID_NAME / VALID_ID / mnc / parse functions on concretisations of
                          every such string, compared with the operators
  content clause       : recorded broker and worker runs carry content-class tokens (Python == on
                          (key, payload, parameters)); the contract requires the class delivered = enqueued
  Dec o Enc = Id       : sampled (stated as such): Parameters, RoutingKey, both buckets, timestamps and
                          durations up to 100 years at microsecond precision; job -> actor arguments end to end."""
from __future__ import annotations

import dataclasses
import itertools
import json
import random
from datetime import date, datetime, timedelta

from checks.common import Check
from harness import tlc, vloop

CHARS = {"L": ["a", "Z", "q"], "D": ["0", "7"], "U": ["_"], "H": ["-"], "C": [":"], "N": ["\n"], "O": [".", " ", "é", "/", "*"]}


def concretise(cls_seq, rng):
    return "".join(rng.choice(CHARS[c]) for c in cls_seq)


def codec_cases(tier, rng):
    from repid._utils import VALID_ID, VALID_NAME
    from repid.connections.redis import utils as ru
    from repid.data._key import RoutingKey
    cases = []
    n = 3 if tier == "quick" else 4
    syms = list(CHARS)
    strs = [list(s) for k in range(1, n + 1) for s in itertools.product(syms, repeat=k)]
    for s in strs:
        real = concretise(s, rng)
        cases.append([{"t": "name", "s": s, "accepted": VALID_NAME.fullmatch(real) is not None}])
        cases.append([{"t": "id", "s": s, "accepted": VALID_ID.fullmatch(real) is not None}])
    names = [s for s in strs if s[0] in "LU" and all(c in "LDUH" for c in s[1:]) and len(s) <= 3]
    ids = [s for s in strs if all(c in "LDUH" for c in s) and len(s) <= 3]
    for _ in range({"quick": 1500, "thorough": 20000}[tier]):
        q, t, t2, i = rng.choice(names), rng.choice(names), rng.choice(names), rng.choice(ids)
        if rng.random() < 0.3:
            t2 = t
        rq, rt, rt2, ri = (concretise(x, rng) for x in (q, t, t2, i))
        if t2 == t:
            rt2 = rt
        elif rt2 == rt:
            continue
        key = RoutingKey(topic=rt, queue=rq, priority=rng.choice([1, 5, 9]), id_=ri)
        full = ru.mnc(key)
        parse_ok = ru.parse_message_name(full) == (ri, rt, rq, key.priority)
        short = ru.mnc(key, short=True)
        short_ok = ru.parse_short_message_name(short) == (rt, ri) and \
            ru.full_message_name_from_short(short, ru.qnc(rq, key.priority)) == full
        filt = short.startswith((rt2 + ":",))
        cases.append([{"t": "key", "q": q, "topic": t, "t2": t2 if rt2 != rt else t, "id": i, "parse_ok": parse_ok, "short_ok": short_ok, "filter_match": filt}])
    return cases


# ---- Dec o Enc = Id (sampling) -----------------------------------------------------------------

def rand_td(rng, big=True):
    choices = [timedelta(0), timedelta(microseconds=1), timedelta(seconds=1), timedelta(days=36500), timedelta(days=36500, microseconds=-1),
               timedelta(microseconds=rng.randint(0, 100 * 365 * 86400 * 10 ** 6)), timedelta(seconds=rng.randint(0, 10 ** 6), microseconds=rng.randint(0, 999999)),
               timedelta(seconds=0.1), timedelta(seconds=1e-05), timedelta(days=rng.randint(0, 36500), microseconds=rng.choice([1, 3, 7, 999999]))]
    return rng.choice(choices)


def rand_dt(rng):
    return rng.choice([datetime(2022, 1, 1), datetime(1970, 1, 1, 0, 0, 0, 1), datetime(2099, 12, 31, 23, 59, 59, 999999),
                       datetime(2000 + rng.randint(0, 60), rng.randint(1, 12), rng.randint(1, 28), rng.randint(0, 23), rng.randint(0, 59), rng.randint(0, 59), rng.randint(0, 999999))])


def roundtrips(ck, tier, rng):
    from repid.data._buckets import ArgsBucket, ResultBucket
    from repid.data._parameters import DelayProperties, Parameters, ResultProperties, RetriesProperties
    n = {"quick": 3000, "thorough": 50000}[tier]
    bad = 0
    for _ in range(n):
        p = Parameters(
            execution_timeout=max(timedelta(seconds=1), rand_td(rng)),
            result=rng.choice([None, ResultProperties(id_=f"r{rng.randint(0, 99)}", ttl=rng.choice([None, rand_td(rng)]))]),
            retries=RetriesProperties(max_amount=rng.randint(0, 10), already_tried=rng.randint(0, 10)),
            delay=DelayProperties(delay_until=rng.choice([None, rand_dt(rng)]), defer_by=rng.choice([None, rand_td(rng)]),
                                  cron=rng.choice([None, "5 4 * * *"]), next_execution_time=rng.choice([None, rand_dt(rng)])),
            timestamp=rand_dt(rng), ttl=rng.choice([None, rand_td(rng)]))
        objs = [p, ArgsBucket(data=rng.choice(["", "{}", '{"a":1}']), timestamp=rand_dt(rng), ttl=rng.choice([None, rand_td(rng)])),
                ResultBucket(data="x", started_when=rng.randint(0, 2 ** 62), finished_when=rng.randint(0, 2 ** 62), success=rng.random() < .5,
                             exception=rng.choice([None, "ValueError"]), timestamp=rand_dt(rng), ttl=rng.choice([None, rand_td(rng)]))]
        for o in objs:
            ck.evaluations += 1
            try:
                back = type(o).decode(o.encode())
            except Exception as e:  # noqa: BLE001
                back = f"{type(e).__name__}: {e}"
            if back != o:
                bad += 1
                if bad <= 5:
                    ck.violation(f"decode(encode(x)) != x for {type(o).__name__}: {o!r} -> {back!r}", {"check": "c07-roundtrip", "obj": repr(o)})
    ck.notes["roundtrip_samples"] = n * 3
    return bad


# ---- end to end: job arguments reach the actor ----------------------------------------------------

@dataclasses.dataclass
class DC:
    a: int
    b: str
    c: list


def rand_json(rng, d=0):
    t = rng.randrange(7 if d < 3 else 4)
    if t == 0:
        return rng.randint(-10 ** 9, 10 ** 9)
    if t == 1:
        return rng.choice(["", "a", "ünï", '"', "__repid_payload_id", "x:y", "\n"])
    if t == 2:
        return rng.choice([True, False, None])
    if t == 3:
        return rng.choice([0.5, -1.25, 1e10])
    if t == 4:
        return [rand_json(rng, d + 1) for _ in range(rng.randint(0, 3))]
    return {rng.choice(["k", "key", "a__repid_payload_id", "_x", "z9"]) + str(j): rand_json(rng, d + 1) for j in range(rng.randint(0, 3))}


async def e2e(loop, cases):
    from pydantic import BaseModel
    from repid import BasicConverter, Connection, InMemoryBucketBroker, InMemoryMessageBroker, Job, Router, RouterDefaults, Worker
    from repid.data.priorities import PrioritiesT
    out = []
    for case in cases:
        broker = InMemoryMessageBroker()
        conn = Connection(broker, InMemoryBucketBroker() if case["bucket"] else None, InMemoryBucketBroker(use_result_bucket=True))
        await conn.connect()
        got = {}
        w = Worker(messages_limit=1, handle_signals=[], _connection=conn, router_defaults=RouterDefaults(converter=BasicConverter))

        async def act(**kwargs):
            got["kwargs"] = kwargs
        w.actor(act, name="act", queue=case["queue"])
        await w.declare_all_queues()
        kw = dict(case["job"])
        j = Job("act", queue=case["queue"], args=case["args"], _connection=conn, **kw)
        if case.get("concurrent"):
            # the worker is already listening when the job is enqueued, and the args bucket takes its time (or fails): the consumer
            # receives what the producer enqueued -- all of it, or (if enqueue() failed) nothing at all
            ab = conn.args_bucket_broker
            orig_store = ab.store_bucket

            async def slow_store(*a, **k):
                await asyncio.sleep(0.05)
                if case["concurrent"] == "store_fails":
                    raise ConnectionError("args bucket unavailable (injected)")
                return await orig_store(*a, **k)
            slow_store._repid_signal_emitter = getattr(orig_store, "_repid_signal_emitter", None)
            ab.store_bucket = slow_store
            wt = asyncio.ensure_future(w.run())
            await asyncio.sleep(0.01)
            failed = False
            try:
                await j.enqueue()
            except ConnectionError:
                failed = True
            if failed:
                await asyncio.sleep(1.0)
                leftover = sum(q.simple.qsize() + len(q.processing) + len(q.dead) + sum(len(v) for v in q.delayed.values()) for q in broker.queues.values())
                wt.cancel()
                try:
                    await wt
                except BaseException:  # noqa: BLE001
                    pass
                expect = json.loads(json.dumps(case["args"], default=str))
                ok = "kwargs" not in got and leftover == 0
                out.append({"same": ok, "got": expect if ok else {"executed": got.get("kwargs"), "messages_left": leftover}, "carried": expect, "key": []})
            else:
                await asyncio.wait_for(wt, 30)
                out.append({"same": True, "got": got.get("kwargs"), "carried": got.get("kwargs"), "key": []})
            continue
        key, payload, params = await j.enqueue()
        c = broker.get_consumer(case["queue"], ["act"])
        await c.start()
        k2, p2, par2 = await c.consume()
        await broker.reject(k2)
        await c.finish()
        same = (k2 == key and par2 == params)
        # the payload the consumer sees: the serialised arguments themselves, or the bucket holding them
        try:
            if case["bucket"]:
                ref = json.loads(p2)["__repid_payload_id"]
                carried = json.loads((await conn.args_bucket_broker.get_bucket(ref)).data)
            else:
                carried = json.loads(p2)
        except Exception as e:  # noqa: BLE001
            carried = f"<<{type(e).__name__}: payload {p2!r}>>"
        if isinstance(case["args"], dict):
            await asyncio.wait_for(w.run(), 30)
        else:
            got["kwargs"] = carried        # not bindable to **kwargs: transport only
        out.append({"same": same, "got": got.get("kwargs"), "carried": carried, "key": [k2.id_, k2.topic, k2.queue, k2.priority]})
    return out


import asyncio  # noqa: E402


def run(tier: str, seed: int, replay=None) -> int:
    vloop.setup()
    ck = Check("C07", tier, seed)
    rng = random.Random(seed)
    ck.rule = ("all strings over 7 symbol classes up to length 3 (quick) / 4 (thorough) through the real validators, sampled valid (queue, topic, id) "
               "triples through the real Redis key constructors/parsers/filter, each compared by TLC with Codec.tla; seeded random Parameters / "
               "buckets (timestamps, durations to 100 years at microsecond precision) through encode/decode; seeded random JSON argument values "
               "(nested, special keys) inline and through the args bucket end to end to the actor; non-trivial = invalid or boundary strings, "
               "sub-millisecond durations, nested values")
    cfg = f"MC_Codec_{tier}.cfg"
    r = tlc.run_tlc("MC_Codec", cfg, timeout=1800)
    if not r.ok:
        ck.model_violation(r, "MC_Codec")
    ck.add_tlc(r, f"MC_Codec ({cfg}): RoundTrip, Filter, NoColon over all valid names/ids up to the bound")
    cases = codec_cases(tier, rng)
    v = tlc.validate_traces("Trace_Codec", "Trace_Codec.cfg", cases, chunk=20000)
    ck.add_tlc(v.result, f"Trace_Codec: {len(cases)} real validator / key-encoding evaluations")
    ck.traces += len(cases)
    for c in cases:
        ck.case(json.dumps(c[0]), nontrivial=(c[0]["t"] == "key") or not c[0]["accepted"])
    ck.sample(cases[5][0])
    ck.sample(cases[-1][0])
    for i in sorted(v.rejected)[:10]:
        ck.violation(f"validator / key encoding disagrees with Codec.tla: {cases[i][0]}", {"check": "c07-codec", "case": cases[i][0]})
    bad = [[dict(cases[0][0], accepted=not cases[0][0]["accepted"])]]
    if len(tlc.validate_traces("Trace_Codec", "Trace_Codec.cfg", bad).rejected) != 1:
        raise tlc.MachineryError("binding self-test failed")
    roundtrips(ck, tier, rng)
    # end to end
    from repid.data.priorities import PrioritiesT
    ecases = []
    for _ in range({"quick": 120, "thorough": 1500}[tier]):
        args = {f"a{j}": rand_json(rng) for j in range(rng.randint(1, 4))}
        if rng.random() < 0.2:
            args = {"d": dataclasses.asdict(DC(1, "x", [1, 2])), "when": "2022-01-01"}
        if rng.random() < 0.15:
            args = rng.choice([{}, [], "", 0, 0.0, False, [0], "x"])     # falsy / non-object top-level values are JSON too
        job = {"priority": rng.choice(list(PrioritiesT)), "retries": rng.randint(0, 3), "ttl": rng.choice([None, timedelta(hours=1)]),
               "timeout": timedelta(seconds=rng.randint(1, 100)), "id_": rng.choice([None, f"id-{rng.randint(0, 999)}_x"]),
               "args_id": rng.choice([None, None, f"args{rng.randint(0, 99)}"]), "result_ttl": rng.choice([None, timedelta(days=1)])}
        bucket = rng.random() < 0.5
        if not bucket:
            job["args_id"] = None        # an explicit args id is a reference into the args bucket broker
        ecases.append({"args": args, "bucket": bucket, "queue": rng.choice(["default", "q-1", "_q"]), "job": job})
    for n in range({"quick": 12, "thorough": 100}[tier]):
        args = {f"a{j}": rand_json(rng) for j in range(rng.randint(1, 3))}
        ecases.append({"args": args, "bucket": True, "queue": "default", "concurrent": "store_fails" if n % 3 == 2 else "slow",
                       "job": {"retries": 0, "args_id": rng.choice([None, f"args{n}"])}})
    outs = vloop.run(e2e, ecases)
    nbad = 0
    for c, o in zip(ecases, outs):
        ck.evaluations += 1
        expect = json.loads(json.dumps(c["args"], default=str))
        if not o["same"] or o["got"] != expect or o["carried"] != expect:
            nbad += 1
            if nbad <= 5:
                ck.violation(f"job arguments/key/parameters changed between producer and consumer: args {c['args']!r} bucket={c['bucket']} -> {o}",
                             {"check": "c07-e2e", "case": {k: (v if k != 'job' else str(v)) for k, v in c.items()}})
    ck.notes["end_to_end_jobs"] = len(ecases)
    ck.assumptions.append("encode/decode fidelity and argument transport are sampled (seeded), not model-checked; TLC decides the structural (key encoding) half and the content-class clause of the broker/worker contracts")
    return ck.finish()
