"""C16: message handles.  MessageApi (TLC: OneTerminal, AfterUse, StoreInOrder over all call
sequences) + every call sequence up to the bound executed on real Message objects (obtained by
iterating a queue in each category) and real MessageDependency objects (inside actor_run),
validated against Trace_MessageApi."""
from __future__ import annotations

import asyncio
import itertools
import random
from datetime import timedelta

from checks.common import Check, pool
from harness import tlc, vloop

TERMINAL = ["ack", "nack", "reject", "reschedule", "retry", "force_retry"]
DEPOPS = TERMINAL + ["set_result", "set_exception", "add_callback"]
# (inside an actor every operation of the program runs within the actor's own `try: ... except Exception:` in half of the runs:
#  the eager response ends the body all the same)


async def _plain(loop, cat, tried, mx, seq, nfail=0):
    from repid import Connection, InMemoryMessageBroker, MessageCategory, Queue
    from repid.data._parameters import DelayProperties, Parameters, RetriesProperties
    broker = InMemoryMessageBroker()
    conn = Connection(broker)
    await conn.connect()
    calls = []
    for name in ("ack", "nack", "reject", "requeue", "enqueue"):
        orig = getattr(broker, name)

        def mk(orig=orig, name=name):
            async def w(*a, **k):
                calls.append(name)
                if faults["left"] > 0 and name != "enqueue":
                    # the broker is unreachable: the call fails before it has any effect
                    faults["left"] -= 1
                    raise ConnectionError("broker unreachable (injected)")
                return await orig(*a, **k)
            w._repid_signal_emitter = getattr(orig, "_repid_signal_emitter", None)
            return w
        setattr(broker, name, mk())
    faults = {"left": 0}
    await broker.queue_declare("q")
    key = broker.ROUTING_KEY_CLASS(id_="m1", topic="t", queue="q")
    kw = {}
    if cat == "d":
        kw["delay"] = DelayProperties(next_execution_time=vloop.wall() + timedelta(hours=1))
    params = Parameters(retries=RetriesProperties(max_amount=mx, already_tried=tried), **kw)
    await broker.enqueue(key, "", params)
    q = Queue("q", _connection=conn)
    if cat == "x":
        g = q.get_messages()
        m0 = await g.__anext__()
        await m0.nack()
        await g.aclose()
    calls.clear()
    category = {"n": MessageCategory.NORMAL, "d": MessageCategory.DELAYED, "x": MessageCategory.DEAD}[cat]
    gen = q.get_messages(category=category)
    m = await gen.__anext__()
    ev = [{"e": "hdr", "cat": cat, "tried": tried, "max": mx, "resOn": False, "dep": False}]
    faults["left"] = nfail          # the first nfail broker calls of the handle fail (transport), the later ones work
    good = []
    for o in seq:
        before = len(calls)
        bfail = False
        try:
            await getattr(m, o)()
            raised = False
            good += calls[before:]
        except ValueError:
            raised = True
        except ConnectionError:
            raised = False
            bfail = True
        ev.append({"e": "op", "o": o, "raised": raised, "bfail": bfail, "calls": calls[before:]})
    faults["left"] = 0
    ev.append({"e": "end", "ran": [], "cont": True, "calls": good, "ro": m.read_only})
    await gen.aclose()
    return ev


async def _dep(loop, tried, mx, res_on, seq, swallow=False):
    from repid import BasicConverter, Connection, InMemoryBucketBroker, InMemoryMessageBroker, MessageDependency, Router, RouterDefaults
    from repid._processor import _Processor
    from repid.data._parameters import Parameters, ResultProperties, RetriesProperties
    broker = InMemoryMessageBroker()
    rb = InMemoryBucketBroker(use_result_bucket=True)
    conn = Connection(broker, None, rb)
    await conn.connect()
    calls, ran, cont = [], [], []
    for name in ("ack", "nack", "reject", "requeue"):
        orig = getattr(broker, name)

        def mk(orig=orig, name=name):
            async def w(*a, **k):
                calls.append(name)
                return await orig(*a, **k)
            w._repid_signal_emitter = getattr(orig, "_repid_signal_emitter", None)
            return w
        setattr(broker, name, mk())
    orig_store = rb.store_bucket

    async def store(*a, **k):
        ran.append("store")
        return await orig_store(*a, **k)
    store._repid_signal_emitter = getattr(orig_store, "_repid_signal_emitter", None)
    rb.store_bucket = store
    await broker.queue_declare("q")
    key = broker.ROUTING_KEY_CLASS(id_="m1", topic="act", queue="q")
    params = Parameters(retries=RetriesProperties(max_amount=mx, already_tried=tried),
                        result=ResultProperties(id_="r1") if res_on else None)
    await broker.enqueue(key, "", params)
    c = broker.get_consumer("q", ["act"])
    await c.start()
    k2, payload, p2 = await c.consume()
    ev = [{"e": "hdr", "cat": "n", "tried": tried, "max": mx, "resOn": res_on, "dep": True}]
    r = Router(defaults=RouterDefaults(converter=BasicConverter, retry_policy=lambda retry_number=1: timedelta(0)))

    async def act(m):
        ntok = 0
        for o in seq:
            if o == "add_callback":
                ntok += 1
                tok = f"c{ntok}"
                if ntok % 2 == 0:
                    m.add_callback(lambda tok=tok: ran.append(tok))
                else:
                    # a callback that suspends before it takes effect: the ones registered after it wait for it
                    async def acb(tok=tok):
                        await asyncio.sleep(0)
                        await asyncio.sleep(0.01)
                        ran.append(tok)
                    m.add_callback(acb)
                ev.append({"e": "cb", "tok": tok})
                continue
            before = len(calls)
            try:
                if o == "set_result":
                    m.set_result({"v": 1})
                elif o == "set_exception":
                    m.set_exception(KeyError("k"))
                elif swallow:
                    # the actor's own error handling around the eager action: it catches Exception, the eager response is not one
                    try:
                        await getattr(m, o)()
                    except ValueError:
                        raise
                    except Exception:  # noqa: BLE001
                        pass
                else:
                    await getattr(m, o)()
                ev.append({"e": "op", "o": o, "raised": False, "bfail": False, "calls": calls[before:]})
            except ValueError:
                ev.append({"e": "op", "o": o, "raised": True, "bfail": False, "calls": calls[before:]})
            except BaseException:
                ev.append({"e": "op", "o": o, "raised": False, "bfail": False, "calls": calls[before:]})
                raise
        cont.append(True)
    act.__annotations__ = {"m": MessageDependency}
    if swallow == "guard":
        # the same program run by a DEPENDENCY of the actor that holds the handle; after a successful terminal action nothing of
        # this delivery continues, the actor's body included
        from typing import Annotated

        from repid.dependencies import Depends
        prog = act

        async def guard(m):
            await prog(m)
            cont.clear()
            return "passed"
        guard.__annotations__ = {"m": MessageDependency}

        async def act(g):      # noqa: F811
            cont.append(True)
        act.__annotations__ = {"g": Annotated[str, Depends(guard)]}
        swallow = False
    r.actor(name="act", queue="q")(act)
    proc = _Processor(conn)
    res = await proc.actor_run(r.actors["act"], k2, p2, payload, conn)
    # read-only flag of the dependency object is not reachable from outside: derive from the broker log
    ev.append({"e": "end", "ran": list(ran), "cont": bool(cont), "calls": list(calls), "ro": len(calls) == 1 if res.reporting_done else False})
    await c.finish()
    return ev


def _run(args):
    vloop.setup()
    kind = args[0]
    if kind == "plain":
        return vloop.run(_plain, *args[1:])
    return vloop.run(_dep, *args[1:])


def run(tier: str, seed: int, replay=None) -> int:
    ck = Check("C16", tier, seed)
    ck.rule = ("all call sequences of length <= L over the 6 terminal actions on Message (3 categories x retry budget spent/left; L=4) and over "
               "the 9 operations on MessageDependency inside actor_run (results on/off, budget spent/left; L=3 quick, 4 thorough); non-trivial = "
               "the sequence contains a refusal or more than one terminal attempt; exhaustive for the bound in the thorough tier")
    r = tlc.run_tlc("MessageApi", "MC_MessageApi.cfg", timeout=900)
    if not r.ok:
        ck.model_violation(r, "MessageApi")
    ck.add_tlc(r, "MessageApi: OneTerminal, UsedIffLogged, StoreInOrder, AfterUse over all call sequences <= 4")
    jobs = []
    if replay is not None:
        jobs = [tuple(replay["job"])]
    else:
        rng = random.Random(seed)
        for L in range(1, 5):
            for seq in itertools.product(TERMINAL, repeat=L):
                for cat in "ndx":
                    # (budget left | spent | overdrawn: a forced retry takes the counter past the budget)
                    for (tried, mx) in ((0, 1), (1, 1), (2, 1), (1, 0)):
                        if tier == "quick" and (L == 4 and rng.random() > 0.05 or L == 3 and tried > mx and rng.random() > 0.3):
                            continue
                        jobs.append(("plain", cat, tried, mx, list(seq)))
                        if L <= 3 and (tier == "thorough" or L <= 2 or rng.random() < 0.25):
                            # the broker fails the first one or two calls of the handle: a failed attempt uses nothing up
                            jobs.append(("plain", cat, tried, mx, list(seq), 1))
                            if L >= 2:
                                jobs.append(("plain", cat, tried, mx, list(seq), 2))
        Ld = 3 if tier == "quick" else 4
        for L in range(1, Ld + 1):
            for seq in itertools.product(DEPOPS, repeat=L):
                for (tried, mx) in ((0, 1), (1, 1), (2, 1)):
                    for res_on in (True, False):
                        if tier == "quick" and L == 3 and rng.random() > 0.3:
                            continue
                        jobs.append(("dep", tried, mx, res_on, list(seq)))
                        if L <= 2:
                            jobs.append(("dep", tried, mx, res_on, list(seq), True))
                            jobs.append(("dep", tried, mx, res_on, list(seq), "guard"))
        if tier == "quick":
            # the length-4 programs that interleave result setting and callback registration before one eager action
            for pre in itertools.product(["set_result", "set_exception", "add_callback"], repeat=3):
                for t in TERMINAL:
                    for res_on in (True, False):
                        jobs.append(("dep", 0, 1, res_on, list(pre) + [t]))
    with pool() as ex:
        traces = list(ex.map(_run, jobs, chunksize=64))
    v = tlc.validate_traces("Trace_MessageApi", "Trace_MessageApi.cfg", traces, chunk=8000)
    ck.add_tlc(v.result, f"Trace_MessageApi: {len(traces)} executed call sequences")
    ck.traces += len(traces)
    ck.exhaustive = tier == "thorough"
    for j, t in zip(jobs, traces):
        ops = [e for e in t if e["e"] == "op"]
        ck.case(str(j), nontrivial=any(e["raised"] for e in ops) or sum(1 for e in ops if e["o"] in TERMINAL) > 1)
    ck.sample({"job": jobs[len(jobs) // 2], "trace": traces[len(jobs) // 2]})
    ck.sample({"job": jobs[-1], "trace": traces[-1]})
    for i in sorted(v.rejected)[:20]:
        pos = v.rejected[i]
        ck.violation(f"message API sequence {jobs[i]} not a behaviour of MessageApi at event {pos}: {traces[i][pos - 1] if pos <= len(traces[i]) else 'end'}",
                     {"check": "c16", "job": list(jobs[i]), "trace": traces[i]})
    if replay is None:
        import copy
        bad = copy.deepcopy(traces[0])
        bad[1]["raised"] = not bad[1]["raised"]
        vb = tlc.validate_traces("Trace_MessageApi", "Trace_MessageApi.cfg", [bad])
        if len(vb.rejected) != 1:
            raise tlc.MachineryError("binding self-test failed")
    return ck.finish()
