"""C01 C05 C12 C14 C15 (and the transport half of C07): broker contract BrokerAbs.
  spec side : TLC model-checks the contract (invariants + action properties)
  code->spec: recorded client histories on the real broker, with task cancellation injected at
              every loop step of every call, validated against Trace_BrokerAbs
  binding   : self-test (a corrupted trace must be rejected)"""
from __future__ import annotations

import copy
import dataclasses
import random

from checks.common import Check, explain, known_devs, known_for, pool
from harness import tlc
from harness.broker_driver import Scenario

BACKENDS = ["inmem", "redis", "rabbit"]
REDIS_SHARED = {"n+n", "topics", "n+d", "same-due", "same-due-topics"}
ALLCHK = ["fifo", "early", "latency", "ttl", "holder", "content"]
CLAUSES = {"C01": ["holder", "route", "content"], "C05": ["early", "latency"], "C12": ["ttl"], "C14": ["holder"], "C15": ["fifo", "starve"], "C07": ["content"]}
# in-memory consumer: due messages are moved every UPDATE_DELAYED_EVERY of idle polling (+ poll period)
def inmem_latency_us():
    from repid.connections.in_memory.consumer import _InMemoryConsumer
    return int((_InMemoryConsumer.UPDATE_DELAYED_EVERY + 0.002 + 1.0) * 1_000_000)


def _record(args):
    scd, chk, devs = args
    from harness import vloop
    from harness.broker_driver import record
    vloop.setup()
    scd = dict(scd)
    be = scd.pop("backend", "inmem")
    scd.pop("no_inject", None)
    sc = Scenario(**scd)
    rec, oplog, stats = record(sc, backend=be)
    return rec.trace(devs=devs, chk=chk), oplog, stats


FAMILIES = {
    # name: (consumers, topics, extra scenario fields)
    "n": ([("q1", None, "NORMAL")], ["ta"], {}),
    "n+x": ([("q1", None, "NORMAL"), ("q1", None, "DEAD")], ["ta"], {"prios": [5, 5, 1, 9]}),
    "n+d": ([("q1", None, "NORMAL"), ("q1", None, "DELAYED")], ["ta"], {}),
    "n+n": ([("q1", None, "NORMAL"), ("q1", None, "NORMAL")], ["ta"], {}),
    # (topic names where one is a prefix of the other: the Redis broker finds a topic's messages by name prefix)
    "topics": ([("q1", ["ta"], "NORMAL"), ("q1", ["tab"], "NORMAL")], ["ta", "tab"], {}),
    "2q": ([("q1", None, "NORMAL"), ("q2", None, "NORMAL"), ("q2", None, "DEAD")], ["ta"], {}),
    # queue_flush / queue_declare / queue_delete between the other calls: two queues, one of them flushed
    # (queue names where one is a prefix of the other: the Redis broker finds a queue's keys by pattern)
    "flush": ([("q1", None, "NORMAL"), ("q10", None, "NORMAL"), ("q10", None, "DEAD")], ["ta"],
              {"weights": {"flush": 1, "declare": 1, "delete": 1, "enq": 6}, "max_ids": 12, "nops": 36}),
    "fifo1": ([("q1", ["ta", "tb"], "NORMAL")], ["ta", "tb", "tac"], {"fifo_only": True, "max_ids": 14, "nops": 45,
              "weights": {"enq": 6, "consume": 5, "finish": 0, "sleep": 1}}),
    "fifoprio": ([("q1", None, "NORMAL")], ["ta"], {"fifo_only": True, "max_ids": 12, "nops": 40, "prios": [1, 5, 9],
                 "weights": {"enq": 6, "consume": 5, "finish": 0, "sleep": 1}}),
    # a consume() call that is already waiting when its consumer is paused, arrivals meanwhile, unpause
    "pause": ([("q1", None, "NORMAL")], ["ta"], {"fifo_only": True, "max_ids": 14, "nops": 40, "sleeps_ms": [1, 150],
              "weights": {"enq": 4, "consume": 1, "consume_bg": 6, "join": 4, "pause": 3, "ack": 2, "finish": 0, "sleep": 1, "reject": 0, "nack": 0, "requeue": 0}}),
    "pause-directed": "directed",
    "maint-directed": "directed",
    "backlog-directed": "directed",
    "dreject-directed": "directed",
    "twoside-directed": "directed",
    "requeue-directed": "directed",
    # broker maintenance (run when any client connects or disconnects) while messages with short, default and day-long execution
    # timeouts are in flight with live consumers: nothing is taken away from a live holder before its timeout
    "maint": ([("q1", None, "NORMAL")], ["ta"],
              {"exec_timeouts_s": [None, 86402, 90000, 30], "ttls_ms": [None], "delays_ms": [None, None, 1], "sleeps_ms": [1, 1100, 2500, 4000],
               "max_ids": 3, "nops": 18, "weights": {"maint": 4, "enq": 3, "consume": 4, "sleep": 4, "finish": 0, "nack": 0, "requeue": 0}, "no_inject": True}),
    # returned messages that carry a (passed) due time, followed by new arrivals
    "fifo-ret": ([("q1", None, "NORMAL")], ["ta"], {"delays_ms": [None, None, -5, -5, 1], "ttls_ms": [None], "max_ids": 12, "nops": 45, "sleeps_ms": [1, 5, 1100],
                 "weights": {"enq": 5, "consume": 5, "reject": 4, "ack": 1, "nack": 0, "requeue": 1, "finish": 0, "sleep": 2}}),
    # a delayed message falls due while the backlog never runs empty
    "starve": ([("q1", None, "NORMAL")], ["ta"], {"delays_ms": [None, None, None, None, 300], "ttls_ms": [None], "max_ids": 28, "nops": 70, "sleeps_ms": [100, 200],
               "consume_tmo_ms": [5], "weights": {"enq": 6, "consume": 5, "reject": 0, "ack": 3, "nack": 0, "requeue": 0, "finish": 0, "sleep": 2}}),
    "same-due": ([("q1", None, "NORMAL"), ("q1", None, "DELAYED")], ["ta"], {"delays_ms": [500, 500, 500, None], "ttls_ms": [None],
                 "weights": {"enq": 6}}),
    # delayed messages of several topics that fall due at the very same instant, consumers that serve one topic each
    "same-due-topics": ([("q1", ["ta"], "NORMAL"), ("q1", ["tab"], "NORMAL")], ["ta", "tab"], {"delays_ms": [400, 400, 400, None], "ttls_ms": [None],
                        "sleeps_ms": [1, 150, 450], "consume_tmo_ms": [5, 300], "nops": 24, "weights": {"enq": 6, "finish": 0}, "no_defer": True,
                        "abs_delays": True}),
    "ttl": ([("q1", None, "NORMAL"), ("q1", None, "DEAD")], ["ta"], {"ttls_ms": [1000, 1000, 2500, None], "sleeps_ms": [999, 1000, 1001, 1, 2501],
            "delays_ms": [None, None, 500, 1000, 1500]}),
    "latency": ([("q1", None, "NORMAL")], ["ta"], {"delays_ms": [300, 800, 1500, 86400000, 86400000, None], "ttls_ms": [None],
                "sleeps_ms": [1, 100, 700], "consume_tmo_ms": [4000, 4000, 50], "weights": {"consume": 5, "enq": 5, "finish": 0}}),
    # messages whose due time has already passed when they are enqueued / re-queued (a retry without back-off), behind
    # far-future ones: they are deliverable at once, whatever else is waiting to fall due
    "due-behind": ([("q1", None, "NORMAL")], ["ta"], {"delays_ms": [86400000, 86400000, -5, -5, 0, None], "ttls_ms": [None],
                   "sleeps_ms": [1, 100, 700], "consume_tmo_ms": [4000, 4000, 50], "weights": {"consume": 5, "enq": 5, "requeue": 2, "finish": 0}}),
    "delay": ([("q1", None, "NORMAL")], ["ta"], {"delays_ms": [1, 250, 999, 1000, 1500, None], "ttls_ms": [None, None, 3000],
              "sleeps_ms": [1, 249, 250, 251, 998, 1000, 1002], "weights": {"consume": 6}}),
}
def directed_pause():
    """a consume() call that is waiting on an empty queue (or behind foreign topics) when its consumer is paused; k messages
    arrive; unpause after 0 / a few / many polling ticks; everything is collected: the arrival order is the delivery order"""
    out = []
    all_w = {"enq": 1, "consume": 1, "consume_bg": 1, "join": 1, "pause": 1, "ack": 1, "finish": 1, "sleep": 1}
    for k in (1, 2, 3):
        for wait in (0, 3, 250):
            for early_pause in (False, True):       # pause before / after the consume() call started
                for foreign in (False, True):
                    ops = [("start", 0)]
                    ops += [("pause", 0), ("consume_bg", 0)] if early_pause else [("consume_bg", 0), ("pause", 0)]
                    ops += ["enq"] * k + [("sleep", wait), ("unpause", 0), ("join", 0)]
                    ops += [("consume", 0), ("ack", 0, 0)] * (k + 1)
                    out.append(dict(seed=7000 + len(out), consumers=[("q1", ["ta"] if foreign else None, "NORMAL")],
                                    topics=["ta", "tb"] if foreign else ["ta"], fifo_only=True, script=ops, weights=all_w,
                                    consume_tmo_ms=[400], max_ids=12))
    return out


def directed_backlog():
    """k messages of a topic nobody here serves -- waiting, or delayed and already due -- sit in front of one message of the
    consumer's own topic: the consumer's own message is delivered within the latency bound, however long the foreign backlog"""
    out = []
    all_w = {"enq": 1, "consume": 1, "ack": 1, "sleep": 1, "finish": 1}
    for k in (3, 9, 10, 12, 25):
        for fdelay, odelay in ((-5, -5), (200, 200), (None, None), (200, None), (-5, 300)):
            ops = [("start", 0)] + [("enqx", "tb", fdelay, None)] * k + [("enqx", "ta", odelay, None), ("sleep", 400),
                                                                        ("consume", 0), ("ack", 0, 0), ("enqx", "ta", odelay, None), ("sleep", 400), ("consume", 0), ("ack", 0, 0)]
            out.append(dict(seed=7800 + len(out), consumers=[("q1", ["ta"], "NORMAL")], topics=["ta", "tb"], script=ops, weights=all_w,
                            consume_tmo_ms=[4000], max_ids=40, no_defer=True, no_inject=True))
    return out


def directed_dreject():
    """a delayed message -- in each of the forms a delay can take -- is looked at through the DELAYED category before it is due
    and put back (reject, or finish of the consumer): normal consumers still get it at its due time, not before"""
    out = []
    all_w = {"enq": 1, "consume": 1, "reject": 1, "ack": 1, "sleep": 1, "finish": 1, "start": 1}
    for kind in ("net", "until", "defer", "defer+net"):
        for back in ("reject", "finish"):
            for delay in (1500, 2600):
                ops = [("enqx", "ta", delay, None), ("start", 1), ("consume", 1)]
                ops += [("reject", 1, 0)] if back == "reject" else [("finish", 1)]
                ops += [("start", 0), ("consume", 0), ("sleep", 300), ("consume", 0), ("sleep", delay), ("consume", 0), ("ack", 0, 0), ("consume", 0)]
                out.append(dict(seed=7900 + len(out), consumers=[("q1", None, "NORMAL"), ("q1", None, "DELAYED")], topics=["ta"], script=ops,
                                weights=all_w, consume_tmo_ms=[400], max_ids=4, delay_kind=kind, no_inject=True))
    return out


def directed_twoside():
    """a consumer is finished while its client gives the message it holds back itself (the two give-backs of a shutdown), the
    settling calls take time (subscribers that await), another consumer is listening: whoever takes the message next keeps it"""
    out = []
    all_w = {"enq": 1, "consume": 1, "reject": 1, "ack": 1, "sleep": 1, "finish": 1, "start": 1}
    for slow in (0, 3, 30, [30, 1], [1, 30]):
        for settle in ("reject", "ack"):
            for gap in (0, 1, 10):
                ops = [("start", 0), ("start", 1), ("enqx", "ta", None, None), ("enqx", "ta", None, None), ("consume", 0), ("finish_bg", 0), (settle, 0, 0)]
                ops += [("sleep", gap)] if gap else []
                ops += [("consume", 1), ("consume", 1), ("join_finish", 0), ("consume", 1), ("ack", 1, 0), ("ack", 1, 0), ("consume", 1)]
                out.append(dict(seed=8100 + len(out), consumers=[("q1", None, "NORMAL"), ("q1", None, "NORMAL")], topics=["ta"], script=ops,
                                weights=all_w, consume_tmo_ms=[60], max_ids=4, slow_signals_ms=slow, fifo_only=True, no_inject=True))
    return out


def directed_requeue():
    """a held message is re-queued (new payload and parameters under the same id), once or twice, with and without a delay, and
    consumed again: what arrives is what was re-queued last"""
    out = []
    all_w = {"enq": 1, "consume": 1, "requeue": 1, "ack": 1, "sleep": 1, "finish": 1}
    for delays in ([None], [-5], [200], [None, 200], [200, None]):
        for n in (1, 2):
            ops = [("start", 0), ("enqx", "ta", None, None), ("consume", 0)]
            for _ in range(n):
                ops += [("requeue", 0, 0), ("sleep", 400), ("consume", 0)]
            ops += [("ack", 0, 0), ("consume", 0)]
            out.append(dict(seed=8300 + len(out), consumers=[("q1", None, "NORMAL")], topics=["ta"], script=ops, weights=all_w,
                            delays_ms=delays, ttls_ms=[None], consume_tmo_ms=[600], max_ids=3, delay_kind="net", no_inject=True))
    return out


def directed_maint():
    """a message with execution timeout T is held by a live consumer for w seconds; other clients connect / disconnect
    (maintenance) meanwhile; then it is settled, and a second one goes through: nothing is taken from a live holder"""
    out = []
    all_w = {"enq": 1, "consume": 1, "ack": 1, "reject": 1, "maint": 1, "sleep": 1, "finish": 1}
    for T in (86402, 90000, 172801, 30, None):
        for w in (1100, 2500, 4000):
            for settle in ("ack", "reject"):
                ops = [("start", 0), "enq", ("consume", 0), ("sleep", w), "maint", ("sleep", 1), "maint", (settle, 0, 0),
                       "maint", ("consume", 0), "enq", ("consume", 0), ("sleep", w), "maint", ("ack", 0, 0), ("consume", 0)]
                out.append(dict(seed=7500 + len(out), consumers=[("q1", None, "NORMAL")], topics=["ta"], fifo_only=True, script=ops,
                                weights=all_w, consume_tmo_ms=[300], exec_timeouts_s=[T], max_ids=4, no_inject=True))
    return out


PER_PROPERTY = {
    "C01": ["n", "n+x", "n+d", "n+n", "topics", "2q", "same-due", "same-due-topics", "requeue-directed", "flush"],
    "C05": ["delay", "latency", "due-behind", "backlog-directed", "dreject-directed", "n+d", "same-due"],
    "C12": ["ttl", "n+x", "n"],
    "C14": ["n+n", "topics", "n+x", "2q", "maint", "maint-directed", "twoside-directed"],
    "C15": ["fifo1", "fifoprio", "fifo-ret", "starve", "pause", "pause-directed", "n"],
    "C07": ["n", "n+x", "n+d", "requeue-directed"],
}


def run(pid: str, tier: str, seed: int, *, replay: dict | None = None) -> int:
    import time as _t
    T0 = _t.time()
    def lap(what):
        print(f"  [{_t.time() - T0:6.1f}s] {what}", flush=True)
    ck = Check(pid, tier, seed)
    chk = CLAUSES[pid]
    ck.rule = ("client histories generated by a seeded RNG from the observed client state (well-behaved: terminal "
               "actions only on held messages), per consumer-configuration family; plus one re-run per (API call, "
               "loop step) with task cancellation injected there; a case is non-trivial if at least one message was "
               "consumed; distinct = distinct (family, seed, injection point) with distinct event sequences")
    ck.trusted.append("in-memory broker: all real code; projection of DummyQueue.simple/delayed/dead/processing")
    if replay is not None and replay.get("check") in ("suite", "replay", "replay_rabbit"):
        # these parts are not driven by a scenario: run the part again
        if replay["check"] == "suite":
            from checks import suite_traces
            suite_traces.run_part(ck, "thorough")
        elif replay["check"] == "replay_rabbit":
            from checks import replay_rabbit
            replay_rabbit.run_part(ck, "quick", seed)
        else:
            from checks import replay_inmem
            replay_inmem.run_part(ck, "quick", seed)
        return ck.finish()
    # ---- 1. the contract itself ------------------------------------------------------------
    if replay is None:
        cfg = "MC_BrokerAbs_quick.cfg" if tier == "quick" else "MC_BrokerAbs_thorough.cfg"
        r = tlc.run_tlc("MC_BrokerAbs", cfg, coverage=(tier == "thorough"), timeout=3000)
        if not r.ok:
            ck.model_violation(r, "BrokerAbs")
        for act in ("Enqueue", "Expire", "Take", "Deliver", "RequeueInsert") if tier == "thorough" else ():
            if r.coverage.get(act, (0, 0))[1] == 0:
                raise tlc.MachineryError(f"vacuity: action {act} of BrokerAbs never taken in {cfg}")
        ck.add_tlc(r, f"BrokerAbs contract, {cfg}: Conservation, OneHolder, NorderSound, NeverEarly, "
                      "NoExpiredDelivery, NotDroppedWhileLive, OnlyViaDelayed, AckRemoves")
        if pid == "C01":
            # the contract with two queues and queue_flush / queue_delete
            rf = tlc.run_tlc("MC_BrokerAbs", "MC_BrokerAbs_flush.cfg", timeout=3000)
            if not rf.ok:
                ck.model_violation(rf, "BrokerAbs (flush)")
            ck.add_tlc(rf, "BrokerAbs contract with two queues and Flush, MC_BrokerAbs_flush.cfg: the invariants plus FlushLocal, FlushComplete, GoneIsFinal")
            # the implementation-shaped specification of the in-memory broker: its own invariants, and that it REFINES
            # the contract (so the contract's exhaustive results speak for that algorithm)
            for cfg2 in (["MC_BrokerInMem_quick.cfg", "MC_BrokerInMem_flushq.cfg"] if tier == "quick"
                         else ["MC_BrokerInMem_thorough.cfg", "MC_BrokerInMem_thorough2.cfg", "MC_BrokerInMem_flush.cfg"]):
                r2 = tlc.run_tlc("MC_BrokerInMem", cfg2, timeout=3000)
                if not r2.ok:
                    ck.model_violation(r2, "BrokerInMem (refinement of BrokerAbs)")
                ck.add_tlc(r2, f"BrokerInMem, {cfg2}: Conservation, TakenIffProcessing, refinement BrokerInMem => BrokerAbs (+ composite consume/finish steps)")
            # the implementation-shaped specification of the RabbitMQ broker (client code + the AMQP server behaviour it relies
            # on): its own invariants, refinement of the contract up to the recorded finding rabbit-prefetch-expiry
            for cfg3 in (["MC_BrokerRabbit_quick.cfg"] if tier == "quick" else
                         ["MC_BrokerRabbit_ttl.cfg", "MC_BrokerRabbit_nn.cfg", "MC_BrokerRabbit_topics.cfg", "MC_BrokerRabbit_nx.cfg",
                          "MC_BrokerRabbit_nd.cfg"]):
                r3 = tlc.run_tlc("MC_BrokerRabbit", cfg3, timeout=3000)
                if not r3.ok:
                    ck.model_violation(r3, "BrokerRabbit (refinement of BrokerAbs)")
                ck.add_tlc(r3, f"BrokerRabbit, {cfg3}: Conservation, TagmapSound, HeldHasTag, LocalHasTag, OneStage, PrefetchBound, "
                               "FinishedHoldsNothing, DueIsVisible, refinement BrokerRabbit => BrokerAbs (time-to-live judged at arrival)")
            # the recorded finding rabbit-requeue-gap at the level of the design: with callers that can be cancelled between the two
            # round trips of requeue() TLC finds the lost message; a requeue that replaces the message in one step has no such gap
            rc_ = tlc.run_tlc("MC_BrokerRabbit", "MC_BrokerRabbit_cancel.cfg", timeout=3000)
            if rc_.ok or rc_.violated != "Conservation":
                raise tlc.MachineryError(f"BrokerRabbit (cancellable requeue): expected Conservation to fail, got {rc_.violated}")
            ck.add_tlc(rc_, "BrokerRabbit with cancellable callers: TLC's counter-example to Conservation is the recorded finding rabbit-requeue-gap "
                            "(Enqueue, Start, ServerDeliver, Callback, Consume, RequeueAck, CancelInTransit)")
            if tier == "thorough":
                ra = tlc.run_tlc("MC_BrokerRabbit", "MC_BrokerRabbit_cancel_atomic.cfg", timeout=3000)
                if not ra.ok:
                    ck.model_violation(ra, "BrokerRabbit (atomic requeue, cancellable callers)")
                ck.add_tlc(ra, "BrokerRabbit with a one-step requeue and cancellable callers: all invariants and the refinement hold")
        if pid == "C05":
            # the implementation-shaped specification of the Redis broker's whole life cycle: invariants, NeverEarly, and -- repair
            # bccc295 -- ReturnKeepsDue (a message that comes back from flight into the delayed set comes back under the score it
            # had); with the pinned reject() TLC finds the recurring message that is put off by a period
            for cfg4 in (["MC_BrokerRedisLife_quick.cfg"] if tier == "quick" else ["MC_BrokerRedisLife_mid.cfg", "MC_BrokerRedisLife_nx.cfg", "MC_BrokerRedisLife_refine.cfg"]):
                r4 = tlc.run_tlc("MC_BrokerRedisLife", cfg4, timeout=3000)
                if not r4.ok:
                    ck.model_violation(r4, "BrokerRedisLife")
                ck.add_tlc(r4, f"BrokerRedisLife, {cfg4}: Conservation, MarkedIffInFlight, HeldIsInFlight, DueRemembered, ReturnKeepsDue, NotBeforeTimeout, NeverEarly"
                               + ("; refinement BrokerRedisLife => BrokerAbs (without the fifo and ttl clauses: the recorded findings of this broker)" if "refine" in cfg4 else ""))
            rp4 = tlc.run_tlc("MC_BrokerRedisLife", "MC_BrokerRedisLife_pinned.cfg", timeout=3000)
            if rp4.ok or rp4.violated != "ReturnKeepsDue":
                raise tlc.MachineryError(f"BrokerRedisLife (pinned reject): expected ReturnKeepsDue to fail, got {rp4.violated}")
            ck.add_tlc(rp4, "BrokerRedisLife with the reject() of before repair bccc295: TLC's counter-example to ReturnKeepsDue "
                            "(Enqueue defer, Tick, Start, Prefetch, Consume, Reject: the score is computed anew)")
        if pid == "C12":
            # the recorded finding rabbit-prefetch-expiry at the level of the design: with the pinned algorithm TLC finds the
            # hand-over of an expired message (strict refinement fails); with the check moved to the hand-over it holds
            rp = tlc.run_tlc("MC_BrokerRabbit", "MC_BrokerRabbit_pinned_ttl.cfg", timeout=3000)
            if rp.ok or rp.violated != "Refines":
                raise tlc.MachineryError(f"BrokerRabbit (pinned): expected the strict refinement to fail on the time-to-live clause, got {rp.violated}")
            ck.add_tlc(rp, "BrokerRabbit, pinned algorithm, strict refinement: TLC's counter-example is the recorded finding "
                           "rabbit-prefetch-expiry (Start, Enqueue with ttl, Tick, ServerDeliver, Callback, Tick, Consume)")
            ck.notes["rabbit_design_counterexample"] = [a for (a, _) in rp.trace][:10] if rp.trace else "see tlc_runs"
            if tier == "thorough":
                rh = tlc.run_tlc("MC_BrokerRabbit", "MC_BrokerRabbit_handover.cfg", timeout=3000)
                if not rh.ok:
                    ck.model_violation(rh, "BrokerRabbit (expiry at hand-over)")
                ck.add_tlc(rh, "BrokerRabbit with the time-to-live judged at hand-over: strict refinement of BrokerAbs holds")
    lap('contract model-checked')
    # ---- 2. histories on the real broker ---------------------------------------------------
    if replay is not None:
        scs = [replay["scenario"]]
    else:
        nseeds = {"quick": 6, "thorough": 40}[tier]
        scs = []
        for be in BACKENDS:
            for fam in PER_PROPERTY[pid]:
                if FAMILIES[fam] == "directed":
                    scs += [dict(sc, backend=be) for sc in {"pause-directed": directed_pause, "maint-directed": directed_maint,
                                                            "backlog-directed": directed_backlog, "dreject-directed": directed_dreject,
                                                            "twoside-directed": directed_twoside, "requeue-directed": directed_requeue}[fam]()
                            if not (fam == "backlog-directed" and be == "rabbit")]   # (RabbitMQ: finding rabbit-foreign-topic-blocks, owned by C11)
                    continue
                consumers, topics, extra = FAMILIES[fam]
                for s in range(nseeds if be == "inmem" else max(3, nseeds // 2)):
                    sc = dict(seed=seed * 1000 + s, consumers=consumers, topics=topics, backend=be, **extra)
                    if be != "inmem" and len(consumers) > 1 and s % 2:
                        sc["schedule"] = True        # seeded random order of the server round trips
                    if be == "rabbit" and fam in ("topics", "same-due-topics"):
                        # a foreign-topic message is re-delivered every 0.1 s for as long as the consumer runs: keep it short
                        sc.update(nops=16, sleeps_ms=[1, 50, 250], consume_tmo_ms=[5, 300])
                    if be == "redis" and fam in REDIS_SHARED:
                        # several Redis consumers that can take the same message: every longer history is dominated by the
                        # cascades of the known double-take defect (redis-double-take); keep these histories short, so that
                        # they demonstrate exactly that finding, and do not inject cancellations on top of it
                        sc.update(max_ids=2, nops=14, ttls_ms=[None], no_inject=True)
                    scs.append(sc)
    devs = []
    jobs = [(sc, chk, devs) for sc in scs]
    with pool() as ex:
        base = list(ex.map(_record, jobs, chunksize=4))
        # cancellation injection at every loop step of every API call of every base history
        inj = []
        if replay is None:
            rng = random.Random(seed)
            for sc, (_, oplog, stats) in zip(scs, base):
                if sc.get("no_inject"):
                    continue
                pts = []
                for n, steps in stats["opsteps"].items():
                    ks = set(range(0, steps + 1)) if steps <= 16 else (
                        set(range(0, 8)) | set(range(steps - 7, steps + 1)) | set(rng.sample(range(8, steps - 7), min(3, steps - 15))))
                    pts += [(n, k) for k in sorted(ks)]
                if tier == "quick" and len(pts) > 60:
                    pts = rng.sample(pts, 60)
                for (n, k) in pts:
                    sc2 = copy.deepcopy(sc)
                    sc2["inject"] = (n, k)
                    inj.append(sc2)
        injected = list(ex.map(_record, [(sc, chk, devs) for sc in inj], chunksize=32))
    lap(f'recorded {len(base)} histories + {len(injected)} cancellation variants')
    allsc = scs + inj
    allrec = base + injected
    traces = [t for (t, _, _) in allrec]
    v = tlc.validate_traces("Trace_BrokerAbs", "Trace_BrokerAbs.cfg", traces)
    ck.add_tlc(v.result, f"trace validation of {len(traces)} recorded executions against Trace_BrokerAbs (clauses {chk or 'base'})")
    ck.traces += len(traces)
    lap('traces validated')
    seen = set()
    for sc, (t, oplog, stats) in zip(allsc, allrec):
        fp = hash(str([(e.get("e"), e.get("op"), e.get("i"), e.get("v"), e.get("st")) for e in t]))
        ck.case(fp if fp not in seen else fp, nontrivial=stats["consumed"] > 0)
        seen.add(fp)
    ck.sample({"scenario": allsc[0], "ops": base[0][1][:12], "trace_head": base[0][0][:14]})
    if inj:
        ck.sample({"scenario": inj[0], "note": "cancellation injected", "cancelled": injected[0][2]["cancelled"]})
    ck.notes["histories"] = len(scs)
    ck.notes["cancellation_variants"] = len(inj)
    ck.notes["cancelled_calls"] = sum(s["cancelled"] for (_, _, s) in injected)
    # ---- 3. rejections: other property / known finding / violation ---------------------------
    if v.rejected:
        idx = sorted(v.rejected)
        # (a) is it this property's clause, or the base life cycle (C01)?
        if pid != "C01":
            base_tr = [[dict(traces[i][0], chk=[])] + traces[i][1:] for i in idx]
            vb = tlc.validate_traces("Trace_BrokerAbs", "Trace_BrokerAbs.cfg", base_tr)
            ck.add_tlc(vb.result, "re-validation of rejected traces without this property's clauses")
            other = {idx[k] for k in vb.rejected}
            for i in other:
                ck.drift.append({"note": "rejected by the base life cycle (C01), not by this property's clauses",
                                 "scenario": allsc[i]})
            idx = [i for i in idx if i not in other]
        # (b) explained by a listed known finding?
        unexplained = []
        for be in BACKENDS:
            bidx = [i for i in idx if allsc[i].get("backend", "inmem") == be]
            kfs = [k for k in known_for(pid) if k.get("backend") == be and k.get("deviations")]
            kd = sorted({d for k in kfs for d in k["deviations"]})
            if not (kd and bidx):
                unexplained += bidx
                continue
            # a rejected execution is a known finding only if it becomes a behaviour of the contract once exactly
            # the deviation actions of the findings listed for this property and back-end are enabled
            dv_tr = [[dict(traces[i][0], devs=kd)] + traces[i][1:] for i in bidx]
            vd = tlc.validate_traces("Trace_BrokerAbs", "Trace_BrokerAbs.cfg", dv_tr)
            ck.add_tlc(vd.result, f"re-validation of rejected {be} traces with deviations {kd}")
            unexplained += [bidx[k] for k in vd.rejected]
            if vd.accepted:
                # which finding(s)?  enable them one at a time
                for kf in kfs:
                    one = [[dict(traces[bidx[k]][0], devs=kf["deviations"])] + traces[bidx[k]][1:] for k in vd.accepted]
                    v1 = tlc.validate_traces("Trace_BrokerAbs", "Trace_BrokerAbs.cfg", one)
                    if v1.accepted or len(kfs) == 1:
                        for _ in (v1.accepted or [0]):
                            ck.known(kf["id"])
        for i in unexplained[:20]:
            pos = v.rejected[i]
            ck.violation(f"execution rejected by the broker contract at event {pos}: {traces[i][pos - 1] if pos <= len(traces[i]) else 'end'}",
                         {"check": "broker", "scenario": allsc[i], "rejected_at": pos, "context": explain(traces[i], pos)})
    # ---- 4. binding self-test ----------------------------------------------------------------
    if replay is None:
        selftest(ck, traces, v)
        if pid == "C01":
            from checks import replay_inmem
            replay_inmem.run_part(ck, tier, seed)
            lap("BrokerInMem behaviours replayed against the real broker")
            from checks import replay_rabbit
            replay_rabbit.run_part(ck, tier, seed)
            lap("BrokerRabbit behaviours replayed against the real RabbitMQ broker on the fake server")
            from checks import suite_traces
            suite_traces.run_part(ck, tier)
            lap("executions of the repository's own test suite validated")
        if pid == "C05":
            from checks import replay_redis_life
            replay_redis_life.run_part(ck, tier, seed)
            lap("BrokerRedisLife behaviours replayed against the real Redis broker on the fake server")
        if pid == "C12":
            from checks import worker_checks
            worker_checks.extra_c12(ck, tier, random.Random(seed))
            lap("worker runs with time-to-live validated")
        if pid == "C14":
            from checks import redis_replay
            redis_replay.run_part(ck)
            lap("BrokerRedis counter-example replayed on the real Redis consumer")
        if pid == "C14":
            from checks import worker_checks
            worker_checks.extra_c14(ck, tier, random.Random(seed))
            lap("multi-worker runs validated")
    return ck.finish()


def selftest(ck: Check, traces, v) -> None:
    """corrupt recorded traces in one field / drop one observation: each must be rejected"""
    good = [i for i in v.accepted if sum(1 for e in traces[i] if e["e"] == "move") >= 3][:6]
    if not good:
        if ck.violations:
            ck.notes["selftest"] = "skipped: every recorded run was rejected"
            return
        raise tlc.MachineryError("self-test: no accepted trace with moves")
    bad = []
    for i in good:
        t = copy.deepcopy(traces[i])
        moves = [n for n, e in enumerate(t) if e["e"] == "move"]
        t1 = copy.deepcopy(t)
        del t1[moves[-1]]                                   # the last observation is missing
        t2 = copy.deepcopy(t)
        vv = t2[moves[-1]]["v"]
        t2[moves[-1]]["v"] = [vv[0] + 1, vv[1], vv[2], vv[3]]   # a duplicate appears
        bad += [t1, t2]
    vb = tlc.validate_traces("Trace_BrokerAbs", "Trace_BrokerAbs.cfg", bad)
    ck.add_tlc(vb.result, "binding self-test: corrupted traces")
    if len(vb.rejected) != len(bad):
        raise tlc.MachineryError(f"binding self-test failed: {len(bad) - len(vb.rejected)} corrupted traces were accepted")
    ck.notes["selftest_corrupted_rejected"] = len(bad)
