from __future__ import annotations

import argparse
import json
import os
import sys
import traceback

from checks.common import ROOT
from harness import tlc

BROKER = {"C01", "C05", "C12", "C14", "C15"}
WORKER = {"C02", "C03", "C04", "C06", "C09", "C10", "C11", "C13"}


def dispatch(pid: str, tier: str, seed: int, replay=None) -> int:
    if replay is not None and replay.get("check") == "worker" and pid == "C12":
        from checks import worker_checks
        return worker_checks.run("C12", tier, seed, replay=replay)
    if replay is not None and replay.get("check") == "worker-c14":
        from checks import worker_checks
        return worker_checks.run("C14", tier, seed, replay=replay)
    if pid in BROKER:
        from checks import broker_checks
        return broker_checks.run(pid, tier, seed, replay=replay)
    if pid in WORKER:
        from checks import worker_checks
        return worker_checks.run(pid, tier, seed, replay=replay)
    mod = __import__(f"checks.{pid.lower()}", fromlist=["run"])
    return mod.run(tier, seed, replay=replay)


def main() -> int:
    ap = argparse.ArgumentParser()
    sub = ap.add_subparsers(dest="cmd", required=True)
    c = sub.add_parser("check")
    c.add_argument("pid")
    c.add_argument("--tier", default=os.environ.get("VERIF_TIER", "quick"))
    r = sub.add_parser("replay")
    r.add_argument("path")
    sub.add_parser("setup")
    a = ap.parse_args()
    seed = int(os.environ.get("VERIF_SEED", "1"))
    try:
        if a.cmd == "check":
            return dispatch(a.pid, a.tier if a.tier in ("quick", "thorough") else "quick", seed)
        if a.cmd == "replay":
            obj = json.loads(open(a.path).read())
            return dispatch(obj["property"], "quick", seed, replay=obj)
        if a.cmd == "setup":
            from checks import setup
            return setup.run()
    except tlc.MachineryError as e:
        print("MACHINERY FAILURE:", str(e)[-4000:], file=sys.stderr)
        return 2
    except Exception:  # noqa: BLE001
        traceback.print_exc()
        return 2
    return 2


if __name__ == "__main__":
    sys.exit(main())
