"""C18: dependency resolution.  Deps.tla gives the value every dependency parameter must receive
(symbolic term of the provider graph, after overrides) and when resolution fails; MC_Deps checks
sanity theorems on all graphs of 4 nodes; every generated graph is built from real Depends
objects (sync providers in the real thread pool), invoked through _Processor.actor_run, and
what the actor received is compared by TLC with Expected(graph, overrides, deps)."""
from __future__ import annotations

import asyncio
import itertools
import random
from typing import Annotated, Any

from checks.common import Check, pool
from harness import tlc


def gen_graphs(n, rng, tier):
    """acyclic graphs over nodes 1..n: kids of node i are sequences (len <= 2) over i+1..n"""
    def kidseqs(i):
        hi = list(range(i + 1, n + 1))
        return [[]] + [[a] for a in hi] + [[a, b] for a in hi for b in hi]
    for kids in itertools.product(*[kidseqs(i) for i in range(1, n + 1)]):
        yield [list(k) for k in kids]


def build(case):
    """real Depends objects for the graph; returns (actor_fn, depobjs, log)"""
    from repid import Depends
    n = len(case["g"])
    log = {"calls": []}
    deps = {}
    ns_base = {"Annotated": Annotated, "Any": Any, "log": log}

    def provider(node, tag, kids, sync, failing):
        ns = dict(ns_base)
        for j, kid in enumerate(kids):
            ns[f"D{j}"] = deps[kid]
        params = ", ".join(f"k{j}: Annotated[Any, D{j}]" for j in range(len(kids)))
        body = f"    log['calls'].append({node})\n"
        if failing:
            body += "    raise RuntimeError('provider failed')\n"
        body += f"    return [{tag!r}, [{', '.join(f'k{j}' for j in range(len(kids)))}]]\n"
        src = f"{'' if sync else 'async '}def prov({params}):\n{body}"
        exec(compile(src, "<provider>", "exec", dont_inherit=True), ns)  # noqa: S102
        return ns["prov"]

    for node in range(n, 0, -1):
        g = case["g"][node - 1]
        deps[node] = Depends(provider(node, g["tag"], g["kids"], case["sync"][node - 1], g["failing"]))
    for ov in case["ovs"]:
        deps[ov["n"]].override(provider(ov["n"], ov["tag"], ov["kids"], ov.get("sync", False), False))
    ns = dict(ns_base)
    for j, node in enumerate(case["deps"]):
        ns[f"D{j}"] = deps[node]
    shape = case.get("shape", "pk")
    dflt = " = 'default-not-a-provider-value'" if shape.endswith("d") else ""
    params = ", ".join(["x: str"] + (["*"] if shape.startswith("kw") and case["deps"] else [])
                       + [f"d{j}: Annotated[Any, D{j}]{dflt}" for j in range(len(case["deps"]))] + (["**kw"] if case.get("collide") else []))
    src = f"async def actor({params}):\n    log['got'] = [{', '.join(f'd{j}' for j in range(len(case['deps'])))}]\n    log['x'] = x\n    return 1\n"
    exec(compile(src, "<actor>", "exec", dont_inherit=True), ns)  # noqa: S102
    return ns["actor"], deps, log


def jsafe(o):
    """an observed dependency value in the shape the providers return, [tag, [sub-values]]; anything else (an exception object
    passed on as a value, a payload string ...) becomes a value with an impossible tag, so that the comparison fails cleanly"""
    if isinstance(o, list) and len(o) == 2 and isinstance(o[0], str) and isinstance(o[1], list):
        return [o[0], [jsafe(x) for x in o[1]]]
    return ["!not-a-provider-value:" + type(o).__name__, []]


async def _invoke(case):
    from repid import BasicConverter, Connection, InMemoryMessageBroker, Router, RouterDefaults
    from repid._processor import _Processor
    from repid.converter import PydanticConverter
    from repid.data._parameters import Parameters
    actor, deps, log = build(case)
    conv = BasicConverter if case["conv"] == "basic" else PydanticConverter
    r = Router(defaults=RouterDefaults(converter=conv))
    r.actor(name="act")(actor)
    broker = InMemoryMessageBroker()
    conn = Connection(broker)
    key = broker.ROUTING_KEY_CLASS(id_="m1", topic="act", queue="default")
    payload = '{"x": "vx"}' if not case.get("collide") else '{"x": "vx", "d0": "from-payload", "other": 1}'
    res = await _Processor(conn).actor_run(r.actors["act"], key, Parameters(), payload, conn)
    if res.success:
        return {"fail": False, "vals": [jsafe(v) for v in log.get("got", [])], "x": log.get("x"), "calls": log["calls"]}
    return {"fail": True, "vals": [], "exc": type(res.exception).__name__, "calls": log["calls"], "ran": "got" in log,
            "reported": bool(res.reporting_done)}


def _run(case):
    import logging
    logging.getLogger("repid").setLevel(100)
    try:
        got = asyncio.run(_invoke(case))
    except ValueError as e:   # declaration refused
        got = {"fail": True, "vals": [], "decl_error": str(e)}
    return got


def run(tier: str, seed: int, replay=None) -> int:
    ck = Check("C18", tier, seed)
    rng = random.Random(seed)
    ck.rule = ("all acyclic provider graphs over <= N nodes (kids: sequences of length <= 2 over higher-numbered nodes; N=3 quick, 4 thorough) x "
               "non-empty dependency-parameter lists x (no failing provider | one failing provider) x sync/async assignment x override sequences "
               "of length <= 2 (rebinding a node to a provider with a different sub-dependency set); sampled where the product is large; "
               "non-trivial = shared sub-dependency, depth >= 2, a failing provider or an override")
    r = tlc.run_tlc("MC_Deps", "MC_Deps.cfg", timeout=900)
    if not r.ok:
        ck.model_violation(r, "MC_Deps")
    ck.add_tlc(r, "MC_Deps: FailsIffReachableFailing, OverrideIsLocal, OverrideEverywhere on all graphs of 4 nodes")
    cases = []
    if replay is not None:
        cases = [replay["case"]]
    else:
        nmax = 3 if tier == "quick" else 4
        budget = {"quick": 1500, "thorough": 30000}[tier]
        allg = []
        for n in range(1, nmax + 1):
            for kids in gen_graphs(n, rng, tier):
                allg.append(kids)
        rng.shuffle(allg)
        per = max(1, budget // max(1, len(allg)))
        for kids in allg:
            n = len(kids)
            for _ in range(per):
                deps = rng.sample(range(1, n + 1), rng.randint(1, min(n, 3)))
                failing = rng.choice([0] * 3 + list(range(1, n + 1)))
                sync = [rng.random() < 0.3 for _ in range(n)]
                ovs = []
                for k in range(rng.choice([0, 0, 1, 2])):
                    node = rng.randint(1, n)
                    hi = list(range(node + 1, n + 1))
                    nk = rng.sample(hi, rng.randint(0, min(2, len(hi)))) if hi else []
                    ovs.append({"n": node, "tag": f"h{k}", "kids": nk, "sync": rng.random() < 0.3})
                g = [{"tag": f"f{i + 1}", "kids": kids[i], "failing": failing == i + 1} for i in range(n)]
                # (shape of the actor's dependency parameters: positional-or-keyword / keyword-only, without / with a default)
                cases.append({"g": g, "deps": deps, "ovs": ovs, "sync": sync, "conv": rng.choice(["basic", "pydantic"]),
                              "shape": rng.choice(["pk", "pk", "kw", "kwd", "pkd"])})
                if rng.random() < 0.15:
                    # the payload carries a key named like a dependency parameter (actor with **kwargs): the invocation is
                    # refused, or the dependency parameter still receives its provider's value -- never the payload's
                    cases.append(dict(cases[-1], conv="basic", collide=True))
            if len(cases) >= budget:
                break
    with pool() as ex:
        gots = list(ex.map(_run, cases, chunksize=16))
    # (a colliding payload that was refused is one of the two allowed outcomes: not compared with Expected)
    keep = [k for k, (c, g) in enumerate(zip(cases, gots)) if not (c.get("collide") and g["fail"])]
    ck.notes["colliding_payload_cases"] = sum(1 for c in cases if c.get("collide"))
    cases = [cases[k] for k in keep]
    gots = [gots[k] for k in keep]
    traces = [[{"g": c["g"], "deps": c["deps"], "ovs": [{"n": o["n"], "tag": o["tag"], "kids": o["kids"]} for o in c["ovs"]],
                "got": {"fail": g["fail"], "vals": g["vals"], "reported": bool(g.get("reported"))}}] for c, g in zip(cases, gots)]
    v = tlc.validate_traces("Trace_Deps", "Trace_Deps.cfg", traces, chunk=5000)
    ck.add_tlc(v.result, f"Trace_Deps: {len(traces)} real resolutions compared with Expected(graph, overrides, deps)")
    ck.traces += len(traces)
    for c, g in zip(cases, gots):
        shared = len({k for n in c["g"] for k in n["kids"]}) < sum(len(n["kids"]) for n in c["g"])
        ck.case(str(c), nontrivial=shared or bool(c["ovs"]) or any(n["failing"] for n in c["g"]) or any(n["kids"] for n in c["g"]))
        # payload argument next to the dependencies; a failing provider must not let the actor run
        if not g["fail"] and g.get("x") != "vx":
            ck.violation(f"payload argument lost next to dependencies: {g}", {"check": "c18", "case": c})
        if g["fail"] and g.get("ran"):
            ck.violation("actor ran although a provider failed", {"check": "c18", "case": c})
    ck.sample({"case": cases[0], "observed": gots[0]})
    ck.sample({"case": cases[-1], "observed": gots[-1]})
    for i in sorted(v.rejected)[:15]:
        ck.violation(f"dependency values differ from the specification: graph {cases[i]['g']} overrides {cases[i]['ovs']} deps {cases[i]['deps']} -> {gots[i]}",
                     {"check": "c18", "case": cases[i], "observed": gots[i]})
    # declaration-time refusals: of providers (Depends(...), override(...)) and of actors (Router.actor); every parameter shape
    # x dependency or not x default or not, one and two parameters: the real answer is compared with DeclSupported by TLC
    import inspect as _inspect
    from repid import Depends, MessageDependency, Router
    D = Depends(lambda: 1)
    kinds = {"po": "{}, /", "pk": "{}", "kw": "*, {}", "va": "*{}", "vk": "**{}"}

    def one(kind, dep, dflt, name):
        ann = ": Annotated[Any, D]" if dep == "dep" else (": MessageDependency" if dep == "msg" else "")
        return f"{name}{ann}" + (" = None" if dflt and kind in ("po", "pk", "kw") else "")
    decl_cases = []
    for kind in kinds:
        for dep in ("dep", "msg", "plain"):
            for dflt in (False, True):
                if kind in ("va", "vk") and dflt:
                    continue
                params = [{"kind": kind, "dep": dep != "plain", "hasdefault": bool(dflt)}]
                src = "def p(" + kinds[kind].format(one(kind, dep, dflt, "a")) + "): return 1"
                decl_cases.append((src, params))
                # a second, supported, dependency parameter next to it
                if kind in ("po", "pk"):
                    src2 = "def p(" + kinds[kind].format(one(kind, dep, dflt, "a")) + (", *, b: Annotated[Any, D]" if kind == "po" else ", b: Annotated[Any, D] = None") + "): return 1"
                    decl_cases.append((src2, params + [{"kind": "kw" if kind == "po" else "pk", "dep": True, "hasdefault": kind != "po"}]))
    dtraces, dmeta = [], []
    for src, params in decl_cases:
        for how in ("provider", "override", "actor"):
            ns = {"Annotated": Annotated, "Any": Any, "D": D, "MessageDependency": MessageDependency}
            exec(compile(src, "<decl>", "exec", dont_inherit=True), ns)  # noqa: S102
            if how == "actor" and any(p_["kind"] in ("va", "vk") for p_ in params):
                continue            # (actors refuse *args / **kwargs for a reason of their own: C08)
            try:
                if how == "provider":
                    Depends(ns["p"])
                elif how == "override":
                    Depends(lambda: 2).override(ns["p"])
                else:
                    Router().actor(name="x")(ns["p"])
                accepted = True
            except ValueError:
                accepted = False
            dtraces.append([{"decl": params, "actor": how == "actor", "accepted": accepted}])
            dmeta.append((src, how, accepted))
    vd = tlc.validate_traces("Trace_Deps", "Trace_Deps.cfg", dtraces, chunk=5000)
    ck.add_tlc(vd.result, f"Trace_Deps: {len(dtraces)} declarations (providers, overrides, actors) compared with DeclSupported")
    refused = sum(1 for (_, _, a) in dmeta if not a)
    for k in sorted(vd.rejected)[:8]:
        src, how, accepted = dmeta[k]
        ck.violation(f"declaration {'accepted' if accepted else 'refused'} ({how}) against the specification: {src}", {"check": "c18", "src": src, "how": how})
    ck.notes["declarations_refused"] = refused
    if replay is None:
        import copy
        ok = next(i for i in v.accepted if traces[i][0]["got"]["vals"])
        bad = copy.deepcopy(traces[ok])
        bad[0]["got"]["vals"][0][0] = "zz"
        vb = tlc.validate_traces("Trace_Deps", "Trace_Deps.cfg", [bad])
        if len(vb.rejected) != 1:
            raise tlc.MachineryError("binding self-test failed")
    return ck.finish()
