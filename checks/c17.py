"""C17: middleware only observes.  Middleware.tla (TLC: OncePerOp, BeforePrecedesEffect,
AfterIffSuccess, NestedSilent, RightConnection); complete job life cycles run with a recording
subscriber on every signal and shims outside/inside every wrapped operation, validated against
Trace_Middleware; non-interference as a differential run (no subscribers vs. ok / raising / slow /
sync subscribers): the broker-level behaviour must be identical."""
from __future__ import annotations

import asyncio
import copy
import random

from checks.common import Check, pool
from harness import tlc
from harness.worker_driver import default_scenario


def scenarios(tier, rng):
    scs = []
    outs = ["ok", "raise", "e_ack", "e_nack+exc+cb", "e_retry", "e_reschedule+res", "timeout"]
    for out in outs:
        for res in (False, True):
            for mx in (0, 1):
                if ("+res" in out or "+exc" in out) and not res:
                    continue
                scs.append(default_scenario(
                    jobs=[{"id": "j", "actor": "job", "script": ["raise"] * mx + [out], "retries": mx, "result": res,
                           "timeout_s": 1 if out == "timeout" else None},
                          {"id": "k", "actor": "job", "script": ["ok"], "at_ms": 300, "result": res}],
                    actors={"job": {"variant": "dep" if out.startswith("e_") else "plain", "policy": ["const", 50]}},
                    worker={"tasks_limit": 2, "messages_limit": 0, "grace_s": 0.3}, results=True, args_bucket=(mx == 1),
                    horizon_ms=3000))
    return scs


def _run(args):
    sc, behaviour = args
    from harness import mw, vloop
    from harness.worker_driver import run_worker
    vloop.setup()
    log = mw.MwLog()

    def extra(conn, rec):
        if behaviour != "none":
            mw.instrument_connection(log, conn, 1)
            if behaviour == "mixed":     # one subscriber raises at once, another one is slow, on every signal
                conn.middleware.add_middleware(mw.recording_middleware(log, 1, "raise_only"))
                conn.middleware.add_middleware(mw.recording_middleware(log, 1, "slow"))
            else:
                conn.middleware.add_middleware(mw.recording_middleware(log, 1, behaviour if behaviour != "trace" else "ok"))
    undo = mw.instrument_actor_run(log) if behaviour != "none" else (lambda: None)
    try:
        rec, info = vloop.run(run_worker, sc, extra_setup=extra)
    except Exception as e:  # noqa: BLE001
        # an operation issued by the scenario itself (declare, enqueue ...) raised: with subscribers that is a difference
        # from the run without them, not a failure of the harness
        return [], {"!scenario": [("raised", type(e).__name__)]}, {}, f"the scenario's own operations raised {type(e).__name__}: {e}"
    finally:
        undo()
    # per message: the sequence of everything that happened to it (operations with their outcome, observed moves,
    # executions and their outcome, result stores) -- insensitive to how unrelated messages interleave
    broker_view = {}
    for e in rec.trace(chk=[]):
        if e["e"] in ("begin", "end", "move", "xs", "xe", "bs", "be", "store") and e.get("i"):
            # three independent streams per message (calls / observed moves / executions): concurrent tasks may
            # interleave them differently without any operation behaving differently
            stream = {"begin": "c", "end": "c", "move": "m"}.get(e["e"], "x")
            broker_view.setdefault(f"{e['i']}{stream}", []).append((e["e"], e.get("op"), tuple(e.get("v", ())), e.get("st"), e.get("out"), e.get("match")))
    results = {j: (None if r is None else {k: v for k, v in r.items() if k not in ("started", "finished")})
               for j, r in info["results"].items()}     # (time shifts caused by slow subscribers are allowed)
    return log.events, broker_view, results, info["run_exc"]


async def _two_connections():
    """two connections alive in one process, one worker each: every signal must reach the subscribers
    of the connection the operation belongs to"""
    from harness import mw
    from repid import BasicConverter, Connection, InMemoryMessageBroker, Job, RouterDefaults, Worker
    log = mw.MwLog()
    undo = mw.instrument_actor_run(log)
    try:
        conns = []
        for tag in (1, 2):
            c = Connection(InMemoryMessageBroker())
            mw.instrument_connection(log, c, tag)
            c.middleware.add_middleware(mw.recording_middleware(log, tag))
            await c.connect()
            conns.append(c)
        workers = []
        for c in conns:
            w = Worker(messages_limit=1, handle_signals=[], _connection=c, router_defaults=RouterDefaults(converter=BasicConverter))

            async def job():
                return 1
            w.actor(job)
            await w.declare_all_queues()
            workers.append(w)
        for n, c in enumerate(conns):
            await Job("job", id_=f"j{n}", _connection=c).enqueue()
        await asyncio.wait_for(asyncio.gather(*(w.run() for w in workers)), 30)
    finally:
        undo()
    return log.events


async def _client_sequence(behaviour="ok", sink=None):
    """one client task issuing operations one after the other, some of which fail (a queue that was never declared) or are
    cancelled (a consume() that times out): the operations that follow in the same task are top-level operations like any
    other -- one before signal each, an after signal iff they succeed"""
    from harness import mw
    from repid import Connection, InMemoryBucketBroker, InMemoryMessageBroker
    from repid.data._buckets import ArgsBucket
    log = mw.MwLog()
    if sink is not None:
        sink.append(log)
    conn = Connection(InMemoryMessageBroker(), InMemoryBucketBroker(), InMemoryBucketBroker(use_result_bucket=True))
    mw.instrument_connection(log, conn, 1)
    conn.middleware.add_middleware(mw.recording_middleware(log, 1, behaviour))
    await conn.connect()
    b = conn.message_broker
    RK = b.ROUTING_KEY_CLASS
    for step in range(2):
        try:
            await b.enqueue(RK(id_=f"lost{step}", topic="t", queue="never-declared"))        # raises
        except KeyError:
            pass
        await b.queue_declare(queue_name="q")
        await b.enqueue(key=RK(id_=f"a{step}", topic="t", queue="q"), payload="{}")
        await conn.args_bucket_broker.store_bucket(id_=f"b{step}", payload=ArgsBucket(data="x"))
        await conn.args_bucket_broker.get_bucket(f"b{step}")
        c = b.get_consumer("q", ["t"])
        await c.start()
        key, _, _ = await c.consume()
        try:
            await asyncio.wait_for(c.consume(), 0.05)                                         # cancelled
        except asyncio.TimeoutError:
            pass
        try:
            await b.ack(RK(id_="x", topic="t", queue="never-declared"))                          # raises
        except KeyError:
            pass
        await b.ack(key)
        await conn.args_bucket_broker.delete_bucket(id_=f"b{step}")
        await c.finish()
    return log.events


def _client(behaviour):
    from harness import vloop
    vloop.setup()

    async def bounded(loop):
        # (a sequence that does not come to an end in 60 virtual seconds is cut off: what it logged so far is what is judged)
        t = asyncio.ensure_future(_client_sequence(behaviour, sink := []))
        try:
            return await asyncio.wait_for(t, 60)
        except asyncio.TimeoutError:
            return sink[0].events + [{"e": "stuck"}] if sink else [{"e": "stuck"}]
    return vloop.run(bounded)


def _two(_):
    from harness import vloop
    vloop.setup()
    return vloop.run(lambda loop: _two_connections())


def run(tier: str, seed: int, replay=None) -> int:
    ck = Check("C17", tier, seed)
    rng = random.Random(seed)
    ck.rule = ("complete job life cycles (outcomes x retries x results x args bucket) on the in-memory brokers with every wrapped operation "
               "instrumented; each scenario also re-run with no / raising / slow / sync / mixed / uncallable (asking for arguments the signal does not carry) subscribers for the differential comparison; plus a "
               "two-connection scenario; non-trivial = the scenario contains a nested wrapped operation or a failing one")
    r = tlc.run_tlc("Middleware", "MC_Middleware.cfg", timeout=900)
    if not r.ok:
        ck.model_violation(r, "Middleware")
    ck.add_tlc(r, "Middleware: OncePerOp, BeforePrecedesEffect, AfterIffSuccess, NestedSilent, RightConnection")
    scs = scenarios(tier, rng)
    behaviours = ["trace", "none", "raise", "slow", "sync", "mixed", "greedy"]
    jobs = [(sc, b) for sc in scs for b in behaviours]
    with pool() as ex:
        outs = list(ex.map(_run, jobs, chunksize=2))
        two = list(ex.map(_two, [0]))[0]
    traces, owners = [], []
    for (sc, b), (events, view, results, exc) in zip(jobs, outs):
        if b not in ("none", "sync", "greedy"):     # (sync subscribers run in executor threads: no call attribution; greedy ones are never called)
            traces.append(events)
            owners.append((sc, b))
    traces.append(two)
    owners.append(("two-connections", "ok"))
    for b in ("ok", "raise", "slow"):
        traces.append(_client(b))
        owners.append(("client-sequence with failing and cancelled operations", b))
    v = tlc.validate_traces("Trace_Middleware", "Trace_Middleware.cfg", traces)
    ck.add_tlc(v.result, f"Trace_Middleware: {len(traces)} instrumented runs")
    ck.traces += len(traces)
    for (sc, b), t in zip(owners, traces):
        ck.case(str((sc, b)), nontrivial=any(e["e"] == "call" and e["nested"] for e in t) or any(e["e"] == "done" and not e["ok"] for e in t))
    ck.sample({"behaviour": owners[0][1], "events": traces[0][:16]})
    ck.sample({"scenario": "two-connections", "events": [e for e in two if e["e"] in ("call", "sig")][:12]})
    for i in sorted(v.rejected)[:10]:
        pos = v.rejected[i]
        ck.violation(f"signal protocol violated ({owners[i][1]} subscribers) at event {pos}: {traces[i][pos - 1] if pos <= len(traces[i]) else 'end'}",
                     {"check": "c17", "scenario": owners[i][0], "behaviour": owners[i][1], "context": traces[i][max(0, pos - 8):pos]})
    # ---- non-interference: same broker-level behaviour whatever the subscribers do ---------------
    n_diff = 0
    for k in range(0, len(jobs), len(behaviours)):
        ref = outs[k + 1]          # "none"
        for j, b in enumerate(behaviours):
            if b == "none":
                continue
            got = outs[k + j]
            # slow subscribers shift everything in time, so less of a periodic / retried message's life may fit
            # before the scenario's horizon: compare the common prefix of every message's history
            def differs(a, b):
                n = min(len(a or []), len(b or []))
                return (a or [])[:n] != (b or [])[:n]
            same_len = all(len(got[1].get(i, [])) == len(ref[1].get(i, [])) for i in set(got[1]) | set(ref[1]))
            slowish = b in ("slow", "mixed")
            diff = [i for i in set(got[1]) | set(ref[1]) if differs(got[1].get(i), ref[1].get(i)) or (not slowish and got[1].get(i) != ref[1].get(i))]
            if diff or (same_len and got[2] != ref[2]) or got[3] != ref[3]:
                n_diff += 1
                if n_diff <= 10:
                    ck.violation(f"subscribers ({b}) changed the behaviour of the operations on message(s) {diff}: "
                                 f"{[got[1].get(i) for i in diff][:1]} vs without subscribers {[ref[1].get(i) for i in diff][:1]}; results {got[2]} vs {ref[2]}; {got[3]} vs {ref[3]}",
                                 {"check": "c17", "scenario": jobs[k][0], "behaviour": b})
    ck.notes["differential_pairs"] = len(scs) * (len(behaviours) - 1)
    # binding self-test: drop a `before` signal
    good = next((t for n, t in enumerate(traces) if n in v.accepted and any(e["e"] == "sig" for e in t)), None)
    if good is None:
        if ck.violations:
            return ck.finish()
        raise tlc.MachineryError("self-test: no accepted trace")
    bad = copy.deepcopy(good)
    del bad[next(n for n, e in enumerate(bad) if e["e"] == "sig")]
    vb = tlc.validate_traces("Trace_Middleware", "Trace_Middleware.cfg", [bad])
    if len(vb.rejected) != 1:
        raise tlc.MachineryError("binding self-test failed")
    return ck.finish()
