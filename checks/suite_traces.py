"""The repository's own tests as a trace source: run (part of) the suite with harness.pytest_plugin, validate
every recorded broker execution against the contract."""
from __future__ import annotations

import json
import os
import subprocess

from harness import tlc

REPO = os.environ.get("VERIF_REPO", "/repo")

QUICK = ["tests/test_message.py", "tests/test_dependencies.py", "tests/test_consumer.py::test_another_topic_is_not_consumed",
         "tests/test_queue.py", "tests/test_job.py"]
THOROUGH = ["tests/test_message.py", "tests/test_dependencies.py", "tests/test_consumer.py", "tests/test_queue.py", "tests/test_job.py",
            "tests/test_worker.py", "tests/test_pytest_plugin.py", "tests/test_runner.py", "tests/test_middleware.py", "tests/test_pydantic.py"]


def run_part(ck, tier: str) -> None:
    d = tlc.scratch("suite")
    out = d / "traces.json"
    env = dict(os.environ, PYTHONPATH="/verif:" + REPO, TZ="UTC", VERIF_TRACE_OUT=str(out))
    sel = QUICK if tier == "quick" else THOROUGH
    p = subprocess.run(["/venv/bin/python", "-m", "pytest", "-q", "-p", "no:cacheprovider", "-p", "harness.pytest_plugin", "--timeout=900", *sel],
                       cwd=REPO, env=env, capture_output=True, text=True, timeout=1500)
    tail = (p.stdout.strip().splitlines() or [""])[-1]
    ck.notes["suite_run"] = {"selection": sel, "pytest": tail}
    if not out.exists():
        ck.notes["suite_traces"] = "no traces recorded: " + (p.stdout + p.stderr)[-500:]
        return
    traces = json.loads(out.read_text())
    import shutil
    shutil.rmtree(d, ignore_errors=True)
    if not traces:
        return
    v = tlc.validate_traces("Trace_BrokerAbs", "Trace_BrokerAbs.cfg", traces)
    ck.add_tlc(v.result, f"the repository's own tests as a trace source: {len(traces)} recorded broker executions validated against the contract")
    ck.traces += len(traces)
    ck.notes["suite_traces"] = len(traces)
    for t in traces[:300]:
        ck.case("suite" + str(hash(str([(e.get("e"), e.get("op"), e.get("i"), e.get("v")) for e in t]))), nontrivial=any(e["e"] == "move" for e in t))
    for i in sorted(v.rejected)[:5]:
        pos = v.rejected[i]
        ck.violation(f"an execution recorded from the repository's own test suite is rejected by the broker contract at event {pos}: {traces[i][pos - 1] if pos <= len(traces[i]) else 'end'}",
                     {"check": "suite", "context": traces[i][max(0, pos - 12):pos]})
