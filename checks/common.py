"""Shared plumbing of all checks: evidence file, replay files, known findings, exit codes."""
from __future__ import annotations

import hashlib
import json
import os
import sys
import time
from concurrent.futures import ProcessPoolExecutor
from pathlib import Path

ROOT = Path(__file__).resolve().parent.parent
# runs against a scratch copy of the repository (VERIF_REPO set) keep their evidence and replay files out of /verif
import os as _os
OUT = ROOT if _os.environ.get("VERIF_REPO", "/repo").rstrip("/") == "/repo" else Path(_os.environ.get("VERIF_SCRATCH_OUT", "/tmp/verif-scratch-out"))
sys.path.insert(0, str(ROOT))

from harness import tlc  # noqa: E402

KNOWN = json.loads((ROOT / "known_findings.json").read_text()) if (ROOT / "known_findings.json").exists() else []


def known_for(pid: str) -> list[dict]:
    return [k for k in KNOWN if k["property"] == pid and k.get("status") == "known"]


def known_devs(pid: str) -> list[str]:
    return sorted({d for k in known_for(pid) for d in k.get("deviations", [])})


def _init_worker():
    from harness import vloop
    vloop.setup()


def pool(n: int | None = None) -> ProcessPoolExecutor:
    return ProcessPoolExecutor(max_workers=n or min(16, os.cpu_count() or 4), initializer=_init_worker)


class Check:
    def __init__(self, pid: str, tier: str, seed: int, level: str = "model_checking") -> None:
        self.pid, self.tier, self.seed, self.level = pid, tier, seed, level
        self.t0 = time.time()
        self.states = 0
        self.transitions = 0
        self.traces = 0
        self.evaluations = 0
        self.fingerprints: set = set()
        self.samples: list = []
        self.violations: list = []
        self.known_hit: dict[str, int] = {}
        self.drift: list = []
        self.tlc_runs: list = []
        self.notes: dict = {}
        self.assumptions: list[str] = []
        self.trusted = ["TLC 1.8 (tla2tools.jar)", "virtual-time event loop and clock rebinding (harness/vloop.py)",
                        "recorder / state projection (harness/record.py)"]
        self.rule = ""
        self.exhaustive = False

    # -- bookkeeping ------------------------------------------------------------------
    def add_tlc(self, r: tlc.TLCResult, what: str) -> None:
        self.states += r.distinct
        self.transitions += r.generated
        self.tlc_runs.append({"what": what, "cmd": r.cmd, "distinct": r.distinct, "generated": r.generated,
                              "depth": r.depth, "wall_s": round(r.wall_s, 1),
                              "coverage": {k: list(v) for k, v in list(r.coverage.items())[:40]}})

    def case(self, fingerprint, nontrivial: bool = True) -> None:
        self.evaluations += 1
        if nontrivial:
            self.fingerprints.add(fingerprint if isinstance(fingerprint, (str, int, tuple)) else json.dumps(fingerprint, sort_keys=True, default=str))

    def sample(self, s, limit: int = 4) -> None:
        if len(self.samples) < limit:
            self.samples.append(s)

    def violation(self, what: str, replay: dict) -> None:
        body = json.dumps({"property": self.pid, "what": what, **replay}, sort_keys=True, default=str, indent=1)
        h = hashlib.sha1(body.encode()).hexdigest()[:10]
        d = OUT / "replays"
        d.mkdir(parents=True, exist_ok=True)
        path = d / f"{self.pid}-{h}.json"
        path.write_text(body)
        if len(self.violations) < 50:
            print(f"VIOLATION property={self.pid} replay={path}  # {what}", flush=True)
        self.violations.append({"what": what, "replay": str(path)})

    def known(self, finding_id: str) -> None:
        self.known_hit[finding_id] = self.known_hit.get(finding_id, 0) + 1

    def model_violation(self, r: tlc.TLCResult, what: str) -> None:
        """A TLC invariant/property violation in a *specification* is machinery-level information:
        the contract specs are expected to satisfy their invariants."""
        raise tlc.MachineryError(f"{what}: specification violates {r.violated}\n{r.out[-2500:]}")

    # -- output -----------------------------------------------------------------------
    def finish(self) -> int:
        for k in known_for(self.pid):
            if self.known_hit.get(k["id"]):
                print(f"KNOWN-FINDING: property={self.pid} {k['what']} [{k['id']}; seen {self.known_hit[k['id']]}x this run]")
        cov = {
            "states": self.states, "transitions": self.transitions,
            "traces_validated_against_impl": self.traces,
            "samples": self.samples or [{"note": "no sample recorded"}],
            "evaluations": self.evaluations, "distinct_nontrivial": len(self.fingerprints),
            "rule": self.rule, "exhaustive": self.exhaustive,
            "trusted_base": self.trusted, "tlc_runs": self.tlc_runs,
            "drift": self.drift, "known_findings_hit": self.known_hit,
            "checker_cmd": "tlc (java -cp tla2tools.jar tlc2.TLC), see tlc_runs",
        }
        cov.update(self.notes)
        ev = {"property_id": self.pid, "tier": self.tier, "seed": self.seed, "level": self.level,
              "coverage": cov, "assumptions": self.assumptions, "wall_s": round(time.time() - self.t0, 2),
              "violations": len(self.violations)}
        (OUT / "evidence").mkdir(parents=True, exist_ok=True)
        (OUT / "evidence" / f"{self.pid}.json").write_text(json.dumps(ev, indent=1, default=str))
        if self.drift:
            print(f"note: {len(self.drift)} drift item(s) (code no longer shaped like the implementation spec); see evidence")
        status = "VIOLATIONS" if self.violations else "ok"
        print(f"{self.pid} {self.tier}: {status}; states={self.states} transitions={self.transitions} "
              f"traces={self.traces} evaluations={self.evaluations} distinct={len(self.fingerprints)} "
              f"wall={ev['wall_s']}s")
        return 1 if self.violations else 0


def explain(trace: list, pos: int, width: int = 10) -> list:
    """the events leading to (and including) the first unmatched event of a rejected trace"""
    lo = max(0, pos - width)
    return [dict(n=n + 1, **{k: v for k, v in e.items() if k != "m" or e.get("op") in ("enqueue", "requeue")})
            for n, e in enumerate(trace[lo:pos], start=lo)]
