"""C02 C03 C04 C06 C09 C10 C11: complete Worker runs validated against Trace_Worker (broker
contract + worker pipeline clauses), plus the abstract worker model WorkerAbs checked by TLC."""
from __future__ import annotations

import copy
import itertools
import random

from checks.common import Check, explain, known_devs, known_for, pool
from harness import tlc
from harness.worker_driver import default_scenario

BASE = ["early", "ttl", "holder", "content"]
CLAUSES = {
    "C02": BASE + ["dispo"],
    "C03": BASE + ["dispo", "stop"],
    "C04": BASE + ["retry"],
    "C06": BASE + ["recur"],
    "C09": BASE + ["limit", "progress"],
    "C10": BASE + ["mlimit", "progress"],
    "C11": BASE + ["route", "progress"],
    "C13": BASE + ["dispo", "result", "progress"],
    "C14": BASE + ["once"],
    "C12": BASE + ["ttlclock"],
}
OWN = {"C02": ["dispo"], "C03": ["stop", "dispo"], "C04": ["retry"], "C06": ["recur"], "C09": ["limit", "progress"],
       "C10": ["mlimit", "progress"], "C11": ["route", "progress"], "C13": ["result"]}


def _record(args):
    sc, chk, devs = args
    from harness.worker_driver import record
    rec, info = record(sc)
    info.pop("exec_log", None) if len(info.get("exec_log", [])) > 60 else None
    return rec.trace(devs=devs, chk=chk), info


# ---- scenario families -----------------------------------------------------------------------
EAGER = ["e_ack", "e_nack", "e_reject", "e_retry", "e_force_retry", "e_reschedule"]


def fam_c02(tier, rng):
    scs = []
    outcomes = ["ok", "raise", "timeout"] + EAGER + ["e_ack+res", "e_nack+exc+cb", "e_retry+cb", "e_reschedule+res+cb",
                                                    "e_ack+sw", "e_nack+sw", "e_reject+sw", "e_retry+sw"]
    for out in outcomes:
        for mx in (0, 1, 2):
            for pre in range(0, mx + 1):            # attempts that fail before `out` is tried
                for rec_ in (None, 2000):
                    for res in (False, True):
                        if tier == "quick" and rng.random() > 0.22:
                            continue
                        variant = "dep" if out.startswith("e_") else "plain"
                        job = {"id": "j", "actor": "job", "script": ["raise"] * pre + [out], "retries": mx,
                               "timeout_s": 1 if out == "timeout" else None}
                        if out.startswith("e_") and ("+res" in out or "+exc" in out) and not res:
                            continue
                        if rec_:
                            job["defer_by_ms"] = rec_
                        scs.append(default_scenario(
                            jobs=[job, {"id": "s", "actor": "job2", "script": ["ok"], "at_ms": 9000}],
                            actors={"job": {"variant": variant, "policy": ["const", 100]}, "job2": {"variant": "plain"}},
                            worker={"tasks_limit": 2, "messages_limit": 0, "grace_s": 0.5}, results=res,
                            horizon_ms=12000, deadline_ms=11000))
    # a payload the actor's converter refuses: an ordinary failure (retried / dead-lettered), with both converters
    for conv in ("basic", "pydantic"):
        for mx in (0, 1):
            scs.append(default_scenario(
                jobs=[{"id": "j", "actor": "job", "script": ["ok"], "retries": mx, "args": {"unexpected": 1}, "must_run": False},
                      {"id": "s", "actor": "job", "script": ["ok"], "at_ms": 700}],
                actors={"job": {"variant": "plain", "policy": ["const", 100]}}, converter=conv,
                worker={"tasks_limit": 2, "messages_limit": 0, "grace_s": 0.5}, horizon_ms=4000, deadline_ms=3500))
    # result-storing jobs handled by a worker whose connection has no result store: every execution still gets its disposition
    for out in ("ok", "raise"):
        for mx in (0, 1):
            scs.append(default_scenario(
                jobs=[{"id": "j", "actor": "job", "script": [out, "ok"], "retries": mx, "result": True},
                      {"id": "s", "actor": "job", "script": ["ok"], "at_ms": 700, "result": True}],
                actors={"job": {"variant": "plain", "policy": ["const", 100]}}, results=True, worker_without_results=True,
                worker={"tasks_limit": 2, "messages_limit": 0, "grace_s": 0.5}, horizon_ms=4000, deadline_ms=3500))
    # multi-step: an eager (forced) retry followed by an ordinary outcome
    for out in ("e_retry", "e_force_retry", "e_reject", "e_reschedule"):
        for mx in (0, 1, 2):
            for pre in range(0, mx + 1):
                for follow in ("raise", "ok"):
                    scs.append(default_scenario(
                        jobs=[{"id": "j", "actor": "job", "script": ["raise"] * pre + [out, follow], "retries": mx}],
                        actors={"job": {"variant": "dep", "policy": ["const", 50]}},
                        worker={"tasks_limit": 1, "messages_limit": 0, "grace_s": 0.5}, horizon_ms=6000))
    # an eager response made by a DEPENDENCY of the actor (directly or nested) that holds the message handle: the delivery ends
    # there with that one disposition, the body does not run
    for variant in ("guard", "guardn"):
        for out in ("g_ack", "g_nack", "g_reject", "g_retry", "g_ack+res", "g_nack+exc+cb"):
            for mx in (0, 1):
                for follow in ("ok", "raise"):
                    if tier == "quick" and rng.random() > 0.5:
                        continue
                    scs.append(default_scenario(
                        jobs=[{"id": "j", "actor": "job", "script": [out, follow, "ok"], "retries": mx},
                              {"id": "p", "actor": "job", "script": ["ok"], "at_ms": 300},
                              {"id": "s", "actor": "job2", "script": ["ok"], "at_ms": 2000}],
                        actors={"job": {"variant": variant, "policy": ["const", 100]}, "job2": {"variant": "plain"}},
                        worker={"tasks_limit": 2, "messages_limit": 0, "grace_s": 0.5}, results=("+res" in out or "+exc" in out),
                        horizon_ms=5000, deadline_ms=4500))
    # concurrent mixes
    for n in range({"quick": 12, "thorough": 120}[tier]):
        jobs = []
        for k in range(rng.randint(2, 5)):
            out = rng.choice(outcomes)
            mx = rng.randint(0, 2)
            jobs.append({"id": f"m{k}", "actor": "dep" if out.startswith("e_") else "job",
                         "script": ["raise"] * rng.randint(0, mx) + [out], "retries": mx,
                         "dur_ms": [rng.choice([0, 1, 100, 700])], "timeout_s": 1 if out == "timeout" else None,
                         "at_ms": rng.choice([0, 0, 150, 1200])})
        scs.append(default_scenario(jobs=jobs, actors={"job": {"policy": ["const", 50]}, "dep": {"variant": "dep", "policy": ["const", 50]}},
                                    worker={"tasks_limit": rng.choice([1, 2, 1000]), "messages_limit": 0, "grace_s": 0.5},
                                    results=True, horizon_ms=12000))
    return scs


def fam_c04(tier, rng):
    scs = []
    pols = [["const", 0], ["linear", 100], ["linear", 2500], ["default", 1, 8, 1, 3]]
    for n in range(0, 4 if tier == "thorough" else 3):
        for pat in itertools.product(["raise", "timeout", "ok"], repeat=n + 1):
            if "ok" in pat[:-1] and pat.index("ok") < len(pat) - 1:
                pat = pat[:pat.index("ok") + 1]
            for pol in pols:
                for rec_ in (None, 3000):
                    if tier == "quick" and rng.random() > 0.12:
                        continue
                    job = {"id": "j", "actor": "job", "script": list(pat), "retries": n,
                           "timeout_s": 1 if "timeout" in pat else None}
                    if rec_:
                        job["defer_by_ms"] = rec_
                    scs.append(default_scenario(jobs=[job], actors={"job": {"policy": pol}},
                                                worker={"tasks_limit": 1, "messages_limit": 0, "grace_s": 0.5},
                                                horizon_ms=40000))
    for out in ["e_retry", "e_force_retry"]:
        for mx in (0, 1, 2):
            scs.append(default_scenario(jobs=[{"id": "j", "actor": "job", "script": ["raise"] * mx + [out, out, "ok"], "retries": mx}],
                                        actors={"job": {"variant": "dep", "policy": ["linear", 200]}},
                                        worker={"tasks_limit": 1, "messages_limit": 0, "grace_s": 0.5}, horizon_ms=15000))
    # a forced retry takes the counter past the budget; the attempt it buys fails: that is the end of the chain (dead letter, or
    # the next iteration of a recurring job), not the beginning of an endless one
    for mx in (0, 1, 2):
        for tail in (["raise", "raise"], ["timeout"], ["e_force_retry", "raise"]):
            for rec_ in (None, 3000):
                job = {"id": "j", "actor": "job", "script": ["raise"] * mx + ["e_force_retry"] + tail + ["raise"] * 3, "retries": mx,
                       "timeout_s": 1 if "timeout" in tail else None}
                if rec_:
                    job["defer_by_ms"] = rec_
                scs.append(default_scenario(jobs=[job], actors={"job": {"variant": "dep", "policy": ["linear", 100]}},
                                            worker={"tasks_limit": 1, "messages_limit": 0, "grace_s": 0.5}, horizon_ms=9000))
    # attempts that fail before the body is reached (a payload the converter refuses): counted and bounded like any other failure
    for conv in ("basic", "pydantic"):
        for mx in (0, 1, 3):
            for pol in (["const", 0], ["linear", 100]):
                scs.append(default_scenario(
                    jobs=[{"id": "j", "actor": "job", "script": ["ok"], "retries": mx, "args": {"unexpected": 1}, "must_run": False},
                          {"id": "s", "actor": "job", "script": ["ok"], "at_ms": 900}],
                    actors={"job": {"variant": "plain", "policy": pol}}, converter=conv,
                    worker={"tasks_limit": 2, "messages_limit": 0, "grace_s": 0.5}, horizon_ms=5000, deadline_ms=4500))
    return scs


def fam_c06(tier, rng):
    scs = []
    for n in range({"quick": 24, "thorough": 200}[tier]):
        p = rng.choice([1000, 2000, 2500, 4000])
        iters = rng.randint(4, 6)
        durs = [rng.choice([0, 0, 300, p - 1, p, p + 700, 2 * p + 100]) for _ in range(iters + 2)]
        script = [rng.choice(["ok", "ok", "raise"]) for _ in range(iters + 2)]
        job = {"id": "r", "actor": "job", "script": script, "dur_ms": durs, "defer_by_ms": p,
               "retries": rng.choice([0, 0, 1]), "ttl_ms": rng.choice([None, None, 3 * p])}
        if rng.random() < 0.3:
            job["deferred_until_ms"] = rng.choice([500, p + 300])
        other = [{"id": f"o{k}", "actor": "job", "script": ["ok"], "dur_ms": [rng.choice([0, 500, 1500])],
                  "at_ms": rng.choice([0, 900, 2100, 4000])} for k in range(rng.randint(0, 2))]
        scs.append(default_scenario(jobs=[job] + other, actors={"job": {"policy": ["const", rng.choice([0, 200])]}},
                                    worker={"tasks_limit": rng.choice([1, 2]), "messages_limit": 0, "grace_s": 0.5},
                                    horizon_ms=min(60000, (iters + 1) * max(p, 2000))))
    return scs


def fam_c09(tier, rng):
    scs = []
    for n in range({"quick": 30, "thorough": 300}[tier]):
        tl = rng.choice([1, 1, 2, 3, 5])
        nq = rng.randint(1, 3)
        actors = {f"a{q}": {"queue": f"q{q}", "policy": ["const", 0]} for q in range(nq)}
        jobs = []
        total = 0
        for k in range(rng.randint(1, 12)):
            d = rng.choice([0, 1, 100, 1000, 350])
            out = rng.choice(["ok", "ok", "ok", "raise", "cancelled"])
            total += d
            jobs.append({"id": f"m{k}", "actor": f"a{rng.randrange(nq)}", "script": [out], "dur_ms": [d],
                         "at_ms": rng.choice([0, 0, 0, 1, 100, 101, 1000, 1100, 350])})
        last = max(j["at_ms"] for j in jobs)
        deadline = last + total + 2500 + 150 * len(jobs)
        scs.append(default_scenario(jobs=jobs, actors=actors, worker={"tasks_limit": tl, "messages_limit": 0, "grace_s": 0.5},
                                    horizon_ms=deadline + 3000, deadline_ms=deadline))
    # bodies that run into their time limit and take a while to clean up (finally / context managers), with messages
    # waiting for the slot: the slot is in use until the body has really ended
    for tl in (1, 2):
        for cleanup in (300, 1200):
            jobs = [{"id": f"t{k}", "actor": "a0", "script": ["timeout"], "timeout_s": 1, "cleanup_ms": cleanup, "dur_ms": [0]} for k in range(tl)]
            jobs += [{"id": f"w{k}", "actor": "a0", "script": ["ok"], "dur_ms": [200]} for k in range(2)]
            scs.append(default_scenario(jobs=jobs, actors={"a0": {"queue": "q0", "policy": ["const", 0]}},
                                        worker={"tasks_limit": tl, "messages_limit": 0, "grace_s": 0.5},
                                        horizon_ms=9000, deadline_ms=7000))
    # a saturated worker on the server-backed brokers (pause / unpause of the consumer is a round trip there): a single slot,
    # a backlog, executions that end with a result store or with a retry that re-queues the message at once
    for be in ("rabbit", "redis"):
        for tl in (1, 2):
            for res in (False, True):
                jobs = [{"id": f"m{k}", "actor": "a0", "script": ["raise", "ok"] if k % 3 == 1 else ["ok"], "retries": 1,
                         "dur_ms": [rng.choice([20, 100])], "at_ms": rng.choice([0, 0, 150]), "result": res} for k in range(6)]
                scs.append(default_scenario(jobs=jobs, actors={"a0": {"queue": "q0", "policy": ["const", 0]}}, backend=be, seed=rng.randint(0, 9999),
                                            worker={"tasks_limit": tl, "messages_limit": 0, "grace_s": 0.5}, results=res,
                                            horizon_ms=9000, deadline_ms=7000))
    return scs


def fam_c10(tier, rng):
    scs = []
    for m in (1, 2, 3, 4):
        for extra in (0, 1, 2, 5):
            for dur in ([0], [1], [1000], [0, 700, 5]):
                for tl in (1, 2, 1000):
                    for nq in (1, 2, 3):
                        # several queues share the budget and the slots; the tight cases (budget just above the number of
                        # slots, a backlog in every queue, bodies that end in the same loop step) are always there
                        tight = nq >= 2 and tl == 2 and m in (2, 3) and extra in (1, 2) and dur in ([1000], [0])
                        if tier == "quick" and not tight and rng.random() > 0.08:
                            continue
                        actors = {f"a{q}": {"queue": f"q{q}"} for q in range(nq)}
                        jobs = [{"id": f"m{k}", "actor": f"a{k % nq}", "script": [rng.choice(["ok", "ok", "raise", "cancelled"])],
                                 "dur_ms": [dur[k % len(dur)]]} for k in range(m + extra)]
                        scs.append(default_scenario(jobs=jobs, actors=actors,
                                                    worker={"tasks_limit": tl, "messages_limit": m, "grace_s": 0.5},
                                                    horizon_ms=20000, deadline_ms=None, must_self_stop=True))
    # executions that are still under way long after the limit was reached: run() returns once they have finished (the
    # graceful period is long enough), they are not cut short
    for m, dur, g in ((2, 6500, 12.0), (1, 8000, 20.0)):
        jobs = [{"id": f"m{k}", "actor": "a0", "script": ["ok"], "dur_ms": [dur]} for k in range(m + 2)]
        scs.append(default_scenario(jobs=jobs, actors={"a0": {"queue": "q0"}}, worker={"tasks_limit": 2, "messages_limit": m, "grace_s": g},
                                    horizon_ms=30000, deadline_ms=None, must_self_stop=True))
    return scs


def fam_c11(tier, rng):
    scs = []
    for n in range({"quick": 24, "thorough": 200}[tier]):
        # the worker serves `mine*` actors; `foreign*` jobs share its queues but have no actor here
        # (`misplaced': a job named like an actor of this worker, but waiting in another of its queues than the one that
        #  actor is registered for -- the consumer of a queue takes only the topics registered for that queue)
        nq = rng.randint(1, 3)
        actors = {f"mine{q}": {"queue": f"q{q}"} for q in range(nq)}
        jobs = []
        for k in range(rng.randint(2, 8)):
            mine = rng.random() < 0.6
            q = rng.randrange(nq)
            misplaced = (not mine) and nq > 1 and rng.random() < 0.5
            other = f"mine{(q + 1 + rng.randrange(nq - 1)) % nq}" if misplaced else None
            jobs.append({"id": f"m{k}", "actor": f"mine{q}" if mine else (other or rng.choice([f"foreign{rng.randrange(2)}", f"mine{q}x", f"mine{q}_daily"])), "queue": f"q{q}",
                         "script": ["ok"], "dur_ms": [rng.choice([0, 50])], "at_ms": rng.choice([0, 0, 200]),
                         "must_run": mine, "foreign": not mine})
            if not mine and rng.random() < 0.3:
                jobs[-1]["ttl_ms"] = rng.choice([1000, 2500])     # a foreign message that expires while it waits: still not this worker's business
            if n % 3 == 0 and not jobs[-1]["at_ms"]:
                jobs[-1]["deferred_until_ms"] = 400                # own and foreign jobs that fall due at the very same instant
        scs.append(default_scenario(jobs=jobs, actors=actors, worker={"tasks_limit": rng.choice([1, 3]), "messages_limit": 0, "grace_s": 0.5},
                                    horizon_ms=6000, deadline_ms=5000))
    return scs


def fam_c03(tier, rng):
    scs = []
    shapes = [
        [{"id": "a", "actor": "job", "script": ["ok"], "dur_ms": [300]}],
        [{"id": "a", "actor": "job", "script": ["raise", "ok"], "dur_ms": [200], "retries": 2}],
        [{"id": "a", "actor": "job", "script": ["raise"], "dur_ms": [100]}, {"id": "b", "actor": "job", "script": ["ok"], "dur_ms": [400]}],
        [{"id": "a", "actor": "job", "script": ["ok"], "dur_ms": [250], "defer_by_ms": 1000}],
        [{"id": f"m{k}", "actor": "job", "script": ["ok"], "dur_ms": [200]} for k in range(3)],
    ]
    # the forced cancellation lands exactly when the actor finishes (end of the graceful period == end of the actor, to the
    # microsecond; one millisecond either side): the execution is either through or cancelled, never both
    exact = []
    for dur, grace in ((200, 0.1), (50, 0.0), (300, 0.3), (100, 0.05)):
        for off in (-1, 0, 1):
            for script, retries in ((["ok"], 0), (["raise", "ok"], 1)):
                for nosig in (False, True):
                    exact.append(default_scenario(jobs=[{"id": "m0", "actor": "job", "script": script, "dur_ms": [dur], "retries": retries}],
                                                  actors={"job": {"policy": ["const", 0]}}, no_signals=nosig,
                                                  worker={"tasks_limit": 1, "messages_limit": 0, "grace_s": grace}, horizon_ms=1500,
                                                  stop={"at_ms": dur - int(grace * 1000) + off}, no_step_injection=True))
    # ... and the actor ends a chosen number of loop steps after the stop request, within the same instant (graceful period 0:
    # the forced cancellation is two steps behind the request): every alignment of "the body is through" with "the task is cancelled"
    for g in range(0, 12):
        for script, retries in ((["ok"], 0), (["raise", "ok"], 1)):
            for nosig in (False, True):
                exact.append(default_scenario(jobs=[{"id": "m0", "actor": "job", "script": script, "dur_ms": [50], "retries": retries, "gate_steps": g}],
                                              actors={"job": {"policy": ["const", 0]}}, no_signals=nosig,
                                              worker={"tasks_limit": 1, "messages_limit": 0, "grace_s": 0.0}, horizon_ms=1500,
                                              stop={"at_ms": 80}, no_step_injection=True))
    # the worker stops by itself (messages limit) while an execution is under way that takes longer than any slack: with a
    # graceful period of 0 it is cancelled at once, with a long one it is left to finish
    for g, dur in ((0.0, 9000), (0.3, 9000), (12.0, 6500)):
        scs.append(default_scenario(jobs=[{"id": "a", "actor": "job", "script": ["ok"], "dur_ms": [dur]}, {"id": "b", "actor": "job", "script": ["ok"], "dur_ms": [dur]}],
                                    actors={"job": {"policy": ["const", 0]}}, worker={"tasks_limit": 2, "messages_limit": 2, "grace_s": g},
                                    horizon_ms=16000))
    for jobs in shapes:
        for g in (0.0, 0.05, 1.0):
            for tl in (1, 2):
                for res in (False, True):
                    if tier == "quick" and rng.random() > 0.35:
                        continue
                    scs.append(default_scenario(jobs=copy.deepcopy(jobs), actors={"job": {"policy": ["const", 0]}},
                                                worker={"tasks_limit": tl, "messages_limit": 0, "grace_s": g},
                                                results=res, horizon_ms=5000))
    scs += exact
    return scs


def fam_c13(tier, rng):
    scs = []
    outs = ["ok", "raise", "timeout", "e_ack+res", "e_ack+exc", "e_nack+res", "e_reject+exc", "e_retry+res", "e_reschedule+res+cb",
            "e_ack", "e_ack+res+exc", "e_ack+exc+res", "e_nack+exc+cb"]
    for out in outs:
        for mx, pre in ((0, 0), (2, 1), (2, 2)):
            for rec_ in (None, 2000):
                for res in (True, False):
                    if ("+res" in out or "+exc" in out) and not res:
                        continue
                    job = {"id": "j", "actor": "job", "script": ["raise"] * pre + [out], "retries": mx, "result": res,
                           "timeout_s": 1 if out == "timeout" else None}
                    if rec_:
                        job["defer_by_ms"] = rec_
                    base = default_scenario(jobs=[job, {"id": "s", "actor": "job2", "script": ["ok"], "at_ms": 5000, "result": res}],
                                            actors={"job": {"variant": "dep" if out.startswith("e_") else "plain", "policy": ["const", 100]},
                                                    "job2": {"variant": "plain"}},
                                            worker={"tasks_limit": 2, "messages_limit": 0, "grace_s": 0.5}, results=True,
                                            horizon_ms=8000, deadline_ms=7000)
                    if tier == "quick" and rng.random() > 0.4:
                        continue
                    scs.append(base)
                    if res:   # every result-bucket call failing, one at a time
                        for k in (1, 2, 3):
                            if tier == "quick" and rng.random() > 0.5:
                                continue
                            f = copy.deepcopy(base)
                            f["store_fail_at"] = [k]
                            if k == 1:
                                # the same with a single slot: a failed store must not cost the worker its slot (the job that
                                # arrives later still runs)
                                f1 = copy.deepcopy(f)
                                f1["worker"]["tasks_limit"] = 1
                                b1 = copy.deepcopy(base)
                                b1["worker"]["tasks_limit"] = 1
                                scs += [b1, f1]
                            scs.append(f)
    return scs


def fam_c14(tier, rng):
    """two (or three) workers serving the same queue; one of them is stopped while its actors run"""
    scs = []
    for n in range({"quick": 10, "thorough": 80}[tier]):
        jobs = [{"id": f"m{k}", "actor": "job", "script": [rng.choice(["ok", "ok", "raise"])], "retries": rng.choice([0, 1]),
                 "dur_ms": [rng.choice([50, 200, 400])], "at_ms": rng.choice([0, 0, 100])} for k in range(rng.randint(1, 4))]
        scs.append(default_scenario(jobs=jobs, actors={"job": {"policy": ["const", 0]}}, nworkers=rng.choice([2, 2, 3]),
                                    worker={"tasks_limit": rng.choice([1, 2]), "messages_limit": 0, "grace_s": rng.choice([0.0, 0.3, 1.0])},
                                    horizon_ms=2500, stop={"at_ms": rng.choice([20, 120, 260]), "worker": 0}))
    # the forced cancellation lands exactly when the actor finishes (grace deadline == end of the actor)
    for dur, grace in ((200, 0.1), (50, 0.0), (300, 0.3), (100, 0.05)):
        for off in (-1, 0, 1):
            scs.append(default_scenario(jobs=[{"id": "m0", "actor": "job", "script": ["ok"], "dur_ms": [dur]}],
                                        actors={"job": {"policy": ["const", 0]}}, nworkers=2,
                                        worker={"tasks_limit": 1, "messages_limit": 0, "grace_s": grace}, horizon_ms=1500,
                                        stop={"at_ms": dur - int(grace * 1000) + off, "worker": 0}))
    # a forced shutdown whose give-backs take time (subscribers that await): the other workers poll all the while
    for slow in (3, 20):
        for grace in (0.0, 0.05):
            for n in (1, 3):
                scs.append(default_scenario(jobs=[{"id": f"m{k}", "actor": "job", "script": ["ok"], "dur_ms": [400]} for k in range(n)],
                                            actors={"job": {"policy": ["const", 0]}}, nworkers=3, slow_signals_ms=slow,
                                            worker={"tasks_limit": 2, "messages_limit": 0, "grace_s": grace}, horizon_ms=2500,
                                            stop={"at_ms": 120, "worker": 0}))
    return scs


def extra_c14(ck: Check, tier: str, rng) -> None:
    """C14 end to end: several workers on one queue, stop requests injected into one of them at the loop steps
    where something happens; a successful job is executed exactly once, never two bodies of one message at a time"""
    chk = BASE + ["once"]
    scs = fam_c14(tier, rng)
    with pool() as ex:
        base = list(ex.map(_record, [(sc, chk, []) for sc in scs], chunksize=2))
        inj = []
        for sc, (_, info) in zip(scs, base):
            steps = info["run_steps"] or 0
            hot = sorted({s + d for s in info["event_steps"] for d in (-1, 0, 1) if 1 <= s + d <= steps})
            cap = {"quick": 40, "thorough": 400}[tier]
            if len(hot) > cap:
                hot = sorted(rng.sample(hot, cap))
            for k in hot:
                sc2 = copy.deepcopy(sc)
                sc2["stop"] = {"at_step": k, "worker": 0}
                inj.append(sc2)
        injected = list(ex.map(_record, [(sc, chk, []) for sc in inj], chunksize=8))
        allsc = scs + inj
        traces = [t for (t, _) in base + injected]
        v = tlc.validate_traces("Trace_Worker", "Trace_Worker.cfg", traces)
        ck.add_tlc(v.result, f"Trace_Worker: {len(traces)} runs of 2-3 workers sharing a queue (clauses {chk})")
        ck.traces += len(traces)
        ck.notes["multi_worker_runs"] = len(traces)
        for sc, (t, info) in zip(allsc, base + injected):
            ck.case("mw" + str(hash(str([(e.get("e"), e.get("op"), e.get("i"), e.get("v"), e.get("st"), e.get("out")) for e in t]))),
                    nontrivial=bool(info["exec_count"]))
        ck.sample({"scenario": scs[0], "note": "several workers on one queue"})
        if v.rejected:
            idx = sorted(v.rejected)
            solo = []
            for i in idx:
                s1 = copy.deepcopy(allsc[i])
                s1["nworkers"] = 1
                s1["stop"] = None if s1.get("stop", {}).get("worker") else s1.get("stop")
                solo.append(s1)
            solo_rec = list(ex.map(_record, [(sc, chk, []) for sc in solo], chunksize=2))
            vs = tlc.validate_traces("Trace_Worker", "Trace_Worker.cfg", [t for (t, _) in solo_rec])
            ck.add_tlc(vs.result, "the rejected scenarios again with a single worker")
            for n, i in enumerate(idx):
                pos = v.rejected[i]
                if n in vs.rejected:
                    ck.drift.append({"note": "rejected with a single worker too: not caused by concurrent consumers", "scenario": allsc[i]})
                elif len(ck.violations) < 20:
                    ck.violation(f"with several workers on the queue the run is rejected at event {pos}: {traces[i][pos - 1] if pos <= len(traces[i]) else 'end'}",
                                 {"check": "worker-c14", "scenario": allsc[i], "rejected_at": pos, "context": explain(traces[i], pos, 14)})


def redis_part_c03(ck: Check, tier: str, rng) -> None:
    """C03 on the Redis broker (fake server): stop requests and *process death* at the loop steps where something
    happens; after a death other clients connect/disconnect (maintenance) before and after the execution timeout and a
    healthy consumer drains the queue: in-flight messages come back, not before their timeout, nothing stays in flight"""
    chk = ["holder", "content", "stop", "reclaim", "latency"]
    shapes = [
        # a daily job between two iterations (period + stored time of the next run), interrupted in its second iteration: it is
        # deliverable again, not put off by a day
        [{"id": "a", "actor": "job", "script": ["ok"], "dur_ms": [400], "timeout_s": 3, "defer_by_ms": 86400000, "next_exec_ms": 300, "must_run": False}],
        [{"id": "a", "actor": "job", "script": ["ok"], "dur_ms": [400], "timeout_s": 3}],
        [{"id": "a", "actor": "job", "script": ["ok"], "dur_ms": [300], "timeout_s": 2, "at_ms": 900},
         {"id": "b", "actor": "job", "script": ["raise", "ok"], "dur_ms": [200], "retries": 1, "timeout_s": 2}],
        [{"id": f"m{k}", "actor": "job", "script": ["ok"], "dur_ms": [250], "timeout_s": 3} for k in range(3)],
        # an execution timeout of more than a day (86 402 s): reclaimed only after all of it
        [{"id": "a", "actor": "job", "script": ["ok"], "dur_ms": [400], "timeout_s": 86402}],
    ]
    scs = []
    for jobs in shapes:
        for tl in (1, 2):
            scs.append(default_scenario(jobs=copy.deepcopy(jobs), actors={"job": {"policy": ["const", 0]}}, backend="redis", seed=rng.randint(0, 999),
                                        worker={"tasks_limit": tl, "messages_limit": 0, "grace_s": 0.2}, horizon_ms=4000, latency=True))
    with pool() as ex:
        base = list(ex.map(_record, [(sc, chk, []) for sc in scs], chunksize=1))
        inj = []
        for sc, (_, info) in zip(scs, base):
            steps = info["run_steps"] or 0
            hot = sorted({s + d for s in info["event_steps"] for d in (-1, 0, 1) if 1 <= s + d <= steps})
            cap = {"quick": 30, "thorough": 400}[tier]
            for kind in ("kill", "stop"):
                pts = hot if len(hot) <= cap else sorted(rng.sample(hot, cap))
                for k in pts:
                    sc2 = copy.deepcopy(sc)
                    sc2[kind] = {"at_step": k}
                    inj.append(sc2)
        injected = list(ex.map(_record, [(sc, chk, []) for sc in inj], chunksize=8))
    allsc = scs + inj
    traces = [t for (t, _) in base + injected]
    v = tlc.validate_traces("Trace_Worker", "Trace_Worker.cfg", traces)
    ck.add_tlc(v.result, f"Trace_Worker on the Redis fake: {len(traces)} runs with stop / process-death injection (clauses {chk})")
    ck.traces += len(traces)
    ck.notes["redis_runs"] = len(traces)
    ck.notes["redis_process_deaths"] = sum(1 for s in inj if "kill" in s)
    for sc, (t, info) in zip(allsc, base + injected):
        ck.case("redis" + str(hash(str([(e.get("e"), e.get("op"), e.get("i"), e.get("v"), e.get("st"), e.get("out")) for e in t]))),
                nontrivial=bool(info["exec_count"]))
    ck.sample({"scenario": inj[0] if inj else scs[0], "note": "Redis fake, process death / stop injected"})
    if v.rejected:
        idx = sorted(v.rejected)
        kfs = [k for k in known_for("C03") if k.get("backend") == "redis" and k.get("deviations")]
        kd = sorted({d for k in kfs for d in k["deviations"]})
        unexplained = idx
        if kd:
            dv = [[dict(traces[i][0], devs=kd)] + traces[i][1:] for i in idx]
            vd = tlc.validate_traces("Trace_Worker", "Trace_Worker.cfg", dv)
            ck.add_tlc(vd.result, f"re-validation of rejected Redis runs with deviations {kd}")
            unexplained = [idx[k] for k in vd.rejected]
            for kf in kfs:
                one = [[dict(traces[idx[k]][0], devs=kf["deviations"])] + traces[idx[k]][1:] for k in vd.accepted]
                if one:
                    v1 = tlc.validate_traces("Trace_Worker", "Trace_Worker.cfg", one)
                    for _ in (v1.accepted or ([0] if len(kfs) == 1 else [])):
                        ck.known(kf["id"])
        for i in unexplained[:15]:
            pos = v.rejected[i]
            ck.violation(f"Redis worker run rejected at event {pos}: {traces[i][pos - 1] if pos <= len(traces[i]) else 'end'}",
                         {"check": "worker", "scenario": allsc[i], "rejected_at": pos, "context": explain(traces[i], pos, 14)})


def fam_c12(tier, rng):
    """time-to-live through the worker: retried, rescheduled (also eagerly, by the actor) and recurring messages"""
    scs = []
    for n in range({"quick": 16, "thorough": 150}[tier]):
        ttl = rng.choice([1000, 2500, 4000])
        out = rng.choice(["e_reschedule", "e_reschedule", "raise", "ok", "e_retry"])
        mx = rng.choice([0, 1, 2])
        job = {"id": "j", "actor": "job", "script": [out, rng.choice(["ok", "raise", "e_reschedule"]), "ok"], "retries": mx, "ttl_ms": ttl,
               "dur_ms": [rng.choice([0, 300, ttl - 100, ttl + 200])], "at_ms": rng.choice([0, 500])}
        if rng.random() < 0.4:
            job["defer_by_ms"] = rng.choice([1000, 2000])
        scs.append(default_scenario(jobs=[job], actors={"job": {"variant": "dep", "policy": ["const", rng.choice([0, 500, ttl + 500])]}},
                                    worker={"tasks_limit": 2, "messages_limit": 0, "grace_s": 0.3}, horizon_ms=4 * ttl + 3000))
    # a periodic job with a time-to-live longer than its period, several iterations, bodies that take a while (so that every
    # iteration is rescheduled some time after the instant it was scheduled for): the clock restarts at each rescheduling
    for period, ttl, dur in ((1000, 2500, 300), (1000, 1500, 700), (2000, 2500, 1200)):
        scs.append(default_scenario(jobs=[{"id": "j", "actor": "job", "script": ["ok"] * 6, "then": "ok", "ttl_ms": ttl, "dur_ms": [dur],
                                           "defer_by_ms": period}],
                                    actors={"job": {"variant": "plain", "policy": ["const", 0]}},
                                    worker={"tasks_limit": 1, "messages_limit": 0, "grace_s": 0.3}, horizon_ms=5 * period + 2000))
    return scs


def extra_c12(ck: Check, tier: str, rng) -> None:
    chk = CLAUSES["C12"]
    scs = fam_c12(tier, rng)
    with pool() as ex:
        recs = list(ex.map(_record, [(sc, chk, []) for sc in scs], chunksize=2))
    traces = [t for (t, _) in recs]
    v = tlc.validate_traces("Trace_Worker", "Trace_Worker.cfg", traces)
    ck.add_tlc(v.result, f"Trace_Worker: {len(traces)} worker runs with time-to-live, retries, (eager) reschedules (clauses {chk})")
    ck.traces += len(traces)
    ck.notes["worker_ttl_runs"] = len(traces)
    for sc, (t, info) in zip(scs, recs):
        ck.case("wttl" + str(hash(str([(e.get("e"), e.get("op"), e.get("i"), e.get("v"), e.get("out")) for e in t]))), nontrivial=bool(info["exec_count"]))
    ck.sample({"scenario": scs[0], "note": "ttl through retries / reschedules"})
    if v.rejected:
        idx = sorted(v.rejected)
        other_tr = [[dict(traces[i][0], chk=[c for c in traces[i][0]["chk"] if c not in ("ttlclock", "ttl")])] + traces[i][1:] for i in idx]
        vb = tlc.validate_traces("Trace_Worker", "Trace_Worker.cfg", other_tr)
        for n, i in enumerate(idx):
            pos = v.rejected[i]
            if n in vb.rejected:
                ck.drift.append({"note": "rejected for a reason outside this property's clauses", "scenario": scs[i]})
            elif len(ck.violations) < 15:
                ck.violation(f"worker run with time-to-live rejected at event {pos}: {traces[i][pos - 1] if pos <= len(traces[i]) else 'end'}",
                             {"check": "worker", "scenario": scs[i], "rejected_at": pos, "context": explain(traces[i], pos, 12)})


FAMS = {"C13": fam_c13, "C02": fam_c02, "C03": fam_c03, "C04": fam_c04, "C06": fam_c06, "C09": fam_c09, "C10": fam_c10, "C11": fam_c11}


def run(pid: str, tier: str, seed: int, *, replay: dict | None = None) -> int:
    import time as _t
    T0 = _t.time()

    def lap(what):
        print(f"  [{_t.time() - T0:6.1f}s] {what}", flush=True)
    ck = Check(pid, tier, seed)
    chk = CLAUSES[pid]
    rng = random.Random(seed)
    ck.rule = ("worker scenarios (jobs with scripted outcome/duration per attempt, arrival times, worker limits) from the "
               "property's scenario family; for C03 additionally one re-run per loop step of Worker.run() with the stop "
               "request injected there; non-trivial = at least one actor execution; distinct = distinct event sequences")
    ck.trusted.append("in-memory broker and the whole worker pipeline are real code; actors are scripted by the harness")
    if replay is None:
        model_check(ck, pid, tier)
        lap("abstract worker model checked")
    if replay is not None and pid == "C12":
        t, info = _record((replay["scenario"], CLAUSES["C12"], []))
        v = tlc.validate_traces("Trace_Worker", "Trace_Worker.cfg", [t])
        ck.traces += 1
        if v.rejected:
            ck.violation(f"replayed run rejected at event {v.rejected[0]}", {"check": "worker", "scenario": replay["scenario"]})
        return ck.finish()
    if replay is not None and replay.get("check") == "worker-c14":
        pid_clauses = BASE + ["once"]
        t, info = _record((replay["scenario"], pid_clauses, []))
        v = tlc.validate_traces("Trace_Worker", "Trace_Worker.cfg", [t])
        ck.traces += 1
        if v.rejected:
            ck.violation(f"replayed run rejected at event {v.rejected[0]}", {"check": "worker-c14", "scenario": replay["scenario"]})
        return ck.finish()
    if replay is not None and replay.get("program") is not None:
        from checks import c10_plugin
        c10_plugin.run_part(ck)
        return ck.finish()
    scs = [replay["scenario"]] if replay is not None else FAMS[pid](tier, rng)
    if replay is None:
        # the same scenario families on the Redis and RabbitMQ back-ends (fake servers), a sample of each
        nbe = {"quick": 8, "thorough": 60}[tier]
        extra = []
        for be in ("redis", "rabbit"):
            for sc in rng.sample(scs, min(nbe, len(scs))):
                sc2 = copy.deepcopy(sc)
                sc2["backend"] = be
                sc2["seed"] = rng.randint(0, 9999)
                for j in sc2["jobs"]:
                    # (an actor that ends with a CancelledError of its own making is never answered to the broker; with
                    #  server-side in-flight state that is a scenario of its own, outside these properties)
                    j["script"] = ["raise" if x == "cancelled" else x for x in j["script"]]
                extra.append(sc2)
        scs = scs + extra
    with pool() as ex:
        base = list(ex.map(_record, [(sc, chk, []) for sc in scs], chunksize=2))
        inj, injected = [], []
        if pid == "C03" and replay is None:
            for sc, (_, info) in zip(scs, base):
                if sc.get("no_step_injection"):
                    continue
                steps = info["run_steps"] or 0
                # every loop step at (or within 3 steps of) which something observable happened, plus a
                # sparse sample of the idle stretches in between
                hot = {s + d for s in info["event_steps"] for d in (-3, -2, -1, 0, 1, 2, 3) if 1 <= s + d <= steps}
                cold = [s for s in range(1, steps + 1) if s not in hot]
                pts = sorted(hot | set(rng.sample(cold, min(len(cold), 25))))
                cap = {"quick": 160, "thorough": 100000}[tier]
                if len(pts) > cap:
                    pts = sorted(rng.sample(pts, cap))
                for k in pts:
                    sc2 = copy.deepcopy(sc)
                    sc2["stop"] = {"at_step": k}
                    inj.append(sc2)
                    if sc.get("backend", "inmem") == "inmem" and sc.get("nworkers", 1) == 1 and k in hot:
                        # the same stop through the runner's own entry point instead of the worker's signal handler: one loop step
                        # earlier, which decides on which side of a coinciding timer (end of the actor, end of the graceful period)
                        # the forced cancellation falls
                        sc3 = copy.deepcopy(sc2)
                        sc3["no_signals"] = True
                        inj.append(sc3)
            injected = list(ex.map(_record, [(sc, chk, []) for sc in inj], chunksize=16))
    lap(f"recorded {len(base)} scenarios + {len(injected)} stop-injection variants")
    allsc = scs + inj
    allrec = base + injected
    traces = [t for (t, _) in allrec]
    v = tlc.validate_traces("Trace_Worker", "Trace_Worker.cfg", traces)
    ck.add_tlc(v.result, f"trace validation of {len(traces)} recorded worker runs against Trace_Worker (clauses {chk})")
    ck.traces += len(traces)
    lap("traces validated")
    if pid == "C10" and replay is None:
        from checks import c10_plugin
        c10_plugin.run_part(ck)
        lap("run-on-enqueue programs validated")
    if pid in ("C03", "C09", "C10") and replay is None:
        # the same runs against the implementation-shaped Runner specification (those it has words for)
        from checks import runner_traces
        runner_traces.run_part(ck, allsc, traces)
        lap("in-memory runs validated against Runner.tla")
    for sc, (t, info) in zip(allsc, allrec):
        fp = hash(str([(e.get("e"), e.get("op"), e.get("i"), e.get("v"), e.get("st"), e.get("out")) for e in t]))
        ck.case(fp, nontrivial=bool(info["exec_count"]))
    ck.sample({"scenario": allsc[0], "trace_head": [e for e in base[0][0] if e["e"] not in ("time",)][:25]})
    if inj:
        ck.sample({"scenario": inj[len(inj) // 2], "note": "stop request injected at this loop step"})
    ck.notes["scenarios"] = len(scs)
    ck.notes["stop_injections"] = len(inj)
    if v.rejected:
        idx = sorted(v.rejected)
        # (a) caused by this property's clauses?
        own = OWN[pid]
        other_tr = [[dict(traces[i][0], chk=[c for c in traces[i][0]["chk"] if c not in own])] + traces[i][1:] for i in idx]
        vb = tlc.validate_traces("Trace_Worker", "Trace_Worker.cfg", other_tr)
        ck.add_tlc(vb.result, "re-validation of rejected traces without this property's clauses")
        other = {idx[k] for k in vb.rejected}
        if pid == "C13":
            # a run rejected only when a result-store fault is injected: the fault changed the disposition
            base_of = {str({k: v for k, v in sc.items() if k != "store_fail_at"}): bi for bi, sc in enumerate(scs) if not sc.get("store_fail_at")}
            for i in list(other):
                bi = base_of.get(str({k: v for k, v in allsc[i].items() if k != "store_fail_at"}))
                if allsc[i].get("store_fail_at") and bi is not None and bi not in v.rejected:
                    other.discard(i)
        if pid == "C03":
            # a run that breaks the broker life cycle only when the stop request is injected is a C03
            # violation (a message lost / duplicated by the shutdown); if the same scenario without the
            # injection is rejected too, it belongs to the property whose check owns that clause
            base_of = {}
            for bi, sc in enumerate(scs):
                base_of[str({k: v for k, v in sc.items() if k != "stop"})] = bi
            for i in list(other):
                bi = base_of.get(str({k: v for k, v in allsc[i].items() if k != "stop"}))
                if i >= len(scs) and bi is not None and bi not in v.rejected:
                    other.discard(i)
        for i in list(other)[:10]:
            ck.drift.append({"note": "rejected for a reason outside this property's clauses (see the owning property's check)",
                             "scenario": allsc[i], "at": explain(traces[i], vb.rejected[idx.index(i)], 4)})
        idx = [i for i in idx if i not in other]
        # (b) known findings
        unexplained = []
        for be in ("inmem", "redis", "rabbit"):
            bidx = [i for i in idx if allsc[i].get("backend", "inmem") == be]
            kfs = [k for k in known_for(pid) if k.get("backend") == be and k.get("deviations")]
            kd = sorted({d for k in kfs for d in k["deviations"]})
            if not (kd and bidx):
                unexplained += bidx
                continue
            dv_tr = [[dict(traces[i][0], devs=kd)] + traces[i][1:] for i in bidx]
            vd = tlc.validate_traces("Trace_Worker", "Trace_Worker.cfg", dv_tr)
            ck.add_tlc(vd.result, f"re-validation of rejected {be} runs with deviations {kd}")
            unexplained += [bidx[k] for k in vd.rejected]
            for kf in kfs:
                one = [[dict(traces[bidx[k]][0], devs=kf["deviations"])] + traces[bidx[k]][1:] for k in vd.accepted]
                if one:
                    v1 = tlc.validate_traces("Trace_Worker", "Trace_Worker.cfg", one)
                    for _ in (v1.accepted or ([0] if len(kfs) == 1 else [])):
                        ck.known(kf["id"])
        # known findings identified by the shape of the scenario and of the rejected event (no deviation action
        # exists for liveness findings such as "a job was not executed by the deadline")
        still = []
        for i in unexplained:
            pos = v.rejected[i]
            ev = traces[i][pos - 1] if pos <= len(traces[i]) else {}
            hit = None
            for kf in known_for(pid):
                if kf.get("match_py") and kf.get("backend") == allsc[i].get("backend", "inmem") and \
                        eval(kf["match_py"], {"sc": allsc[i], "ev": ev}):  # noqa: S307
                    hit = kf
            if hit:
                ck.known(hit["id"])
            else:
                still.append(i)
        unexplained = still
        for i in unexplained[:25]:
            pos = v.rejected[i]
            ck.violation(f"worker run rejected at event {pos}: {traces[i][pos - 1] if pos <= len(traces[i]) else 'end'}",
                         {"check": "worker", "scenario": allsc[i], "rejected_at": pos, "context": explain(traces[i], pos, 14)})
        if len(unexplained) > 25:
            print(f"... and {len(unexplained) - 25} more rejected runs")
    if replay is None:
        selftest(ck, traces, v)
        if pid == "C03":
            redis_part_c03(ck, tier, rng)
            lap("Redis stop / process-death runs validated")
        if pid == "C11":
            from checks import router_part
            router_part.run_part(ck, tier, rng)
    return ck.finish()


def model_check(ck: Check, pid: str, tier: str) -> None:
    cfg = f"MC_WorkerAbs_{tier}.cfg"
    r = tlc.run_tlc("WorkerAbs", cfg, coverage=(tier == "thorough"), timeout=3000)
    if not r.ok:
        ck.model_violation(r, "WorkerAbs")
    ck.add_tlc(r, f"WorkerAbs abstract worker model, {cfg}")
    if pid in ("C03", "C09", "C10"):
        # the implementation-shaped runner: the repaired algorithm satisfies the invariants for an in-memory-like and a
        # Redis-like consumer; the pinned algorithm does not (that counter-example is the defect the trace checks found)
        for cfg2, invs in (("MC_Runner_repaired_inmem.cfg", "all"), ("MC_Runner_repaired_inmem_nolimit.cfg", "all"),
                           ("MC_Runner_repaired_rabbit.cfg", "all"), ("MC_Runner_repaired_big.cfg", "all"), ("MC_Runner_repaired_late.cfg", "all"),
                           ("MC_Runner_repaired_2q.cfg", "all"), ("MC_Runner_repaired_wait.cfg", "all"), ("MC_Runner_repaired_2q_tl1.cfg", "all"), ("MC_Runner_repaired_3q.cfg", "all"),
                           ("MC_Runner_repaired_2q_rabbit.cfg", "all"),
                           ("MC_Runner_redis_other.cfg", "all but AtReturn"), ("MC_Runner_redis_other_ml.cfg", "all but AtReturn")):
            r2 = tlc.run_tlc("Runner", cfg2, timeout=900)
            if not r2.ok:
                ck.model_violation(r2, f"Runner ({cfg2})")
            ck.add_tlc(r2, f"Runner (implementation-shaped, repaired), {cfg2}: {invs} of Conservation, RunningBound, StartedBound, AtReturn, TriedBound")
        # expected counter-examples: the pinned algorithm (defects repaired in /repo), and the Redis-like consumer whose
        # finish() returns only its local queue (known finding redis-stop-leaves-in-flight)
        for cfg2, inv in (("MC_Runner_pinned_inmem.cfg", "StartedBound"), ("MC_Runner_pinned_redis.cfg", "AtReturn"),
                          ("MC_Runner_redis_atreturn.cfg", "AtReturn"), ("MC_Runner_pinned_2q.cfg", "StartedBound"),
                          ("MC_Runner_beforeslot_2q.cfg", "StartedBound")):
            r3 = tlc.run_tlc("Runner", cfg2, timeout=900)
            if r3.ok:
                raise tlc.MachineryError(f"Runner {cfg2} was expected to violate {inv}: the model no longer shows the defect it documents")
            ck.tlc_runs.append({"what": f"Runner, {cfg2}: expected to violate {inv}",
                                "violated": r3.violated, "counterexample": [a for a, _ in r3.trace][:16]})


def selftest(ck: Check, traces, v) -> None:
    good = [i for i in v.accepted if sum(1 for e in traces[i] if e["e"] == "xe") >= 1][:5]
    if not good:
        if ck.violations:
            ck.notes["selftest"] = "skipped: every recorded run was rejected"
            return
        raise tlc.MachineryError("self-test: no accepted trace with an execution")
    bad = []
    for i in good:
        t = copy.deepcopy(traces[i])
        t[0]["chk"] = sorted(set(t[0]["chk"]) | {"dispo"})
        rec_ids = {e["i"] for e in t if e["e"] == "end" and e.get("p", {}).get("rec")}
        xe = [n for n, e in enumerate(t) if e["e"] == "xe" and e["out"] in ("ok", "fail") and e["i"] not in rec_ids]
        if xe:
            t1 = copy.deepcopy(t)
            t1[xe[0]]["out"] = "fail" if t1[xe[0]]["out"] == "ok" else "ok"     # outcome flipped: disposition no longer matches
            bad.append(t1)
        moves = [n for n, e in enumerate(t) if e["e"] == "move"]
        t2 = copy.deepcopy(t)
        del t2[moves[-1]]
        bad.append(t2)
    vb = tlc.validate_traces("Trace_Worker", "Trace_Worker.cfg", bad)
    ck.add_tlc(vb.result, "binding self-test: corrupted traces")
    if len(vb.rejected) != len(bad):
        raise tlc.MachineryError(f"binding self-test failed: {len(bad) - len(vb.rejected)} corrupted traces were accepted")
    ck.notes["selftest_corrupted_rejected"] = len(bad)
