"""C08: binding of payloads to actor signatures.  MC_Bind: the statement's clauses on every
well-formed signature (<= N parameters) x payload; Trace_Bind: for every such case the real
converter (Basic, Pydantic, Default) + the real call must produce exactly Bind(sig, payload)."""
from __future__ import annotations

import itertools
import json
import random
import re
from typing import Annotated, Any

from checks.common import Check, known_for
from harness import tlc, vloop

KINDS = ["PO", "PK", "VA", "KO", "VK"]


def wellformed(sig):
    ranks = [KINDS.index(p["kind"]) for p in sig]
    if ranks != sorted(ranks):
        return False
    if sum(p["kind"] == "VA" for p in sig) > 1 or sum(p["kind"] == "VK" for p in sig) > 1:
        return False
    for p in sig:
        if p["kind"] in ("VA", "VK") and (p["dflt"] or p["dep"]):
            return False
        if p["dep"] and p["dflt"]:
            return False
    pos = [p for p in sig if p["kind"] in ("PO", "PK")]
    seen = False
    for p in pos:
        if seen and not p["dflt"]:
            return False
        seen = seen or p["dflt"]
    return True


def all_sigs(n):
    params = [{"kind": k, "dflt": d, "dep": e} for k in KINDS for d in (False, True) for e in (False, True)]
    for m in range(0, n + 1):
        for combo in itertools.product(params, repeat=m):
            sig = list(combo)
            if wellformed(sig):
                yield sig


def declarable(sig):
    return all(p["kind"] in ("PK", "KO") for p in sig if p["dep"])


def build(sig):
    """async def with exactly this signature; returns what it was called with"""
    from repid import Depends
    parts, ns = [], {"Annotated": Annotated, "Depends": Depends, "Any": Any}
    last_po = max([i for i, p in enumerate(sig) if p["kind"] == "PO"], default=-1)
    star_done = False
    for i, p in enumerate(sig):
        n = f"p{i + 1}"
        if p["kind"] == "KO" and not star_done and not any(q["kind"] == "VA" for q in sig):
            parts.append("*")
            star_done = True
        if p["kind"] == "VA":
            parts.append(f"*{n}")
            star_done = True
        elif p["kind"] == "VK":
            parts.append(f"**{n}")
        else:
            if p["dep"]:
                ns[f"prov{i + 1}"] = (lambda i=i: f"dep{i + 1}")
                ann = f"Annotated[str, Depends(prov{i + 1})]"
            else:
                ann = "str"
            parts.append(f"{n}: {ann}" + (f" = 'd{i + 1}'" if p["dflt"] else ""))
        if i == last_po:
            parts.append("/")
    src = f"async def actor({', '.join(parts)}):\n    return dict(locals())\n"
    exec(compile(src, "<signature>", "exec", dont_inherit=True), ns)  # noqa: S102  (no inherited __future__ flags)
    return ns["actor"], src


def run_coro(coro):
    try:
        coro.send(None)
    except StopIteration as e:
        return e.value
    raise RuntimeError("actor suspended")


_CACHE: dict = {}


def observe(sig, conv_cls, payload_json):
    """one converter object per (signature, converter class), used for the whole sequence of payloads
    (like an actor's converter in a worker): state leaking from one message to the next shows up"""
    key = (json.dumps(sig), conv_cls.__name__)
    if key not in _CACHE:
        fn, src = build(sig)
        try:
            _CACHE[key] = (fn, src, conv_cls(fn))
        except ValueError:
            _CACHE[key] = (fn, src, None)
    fn, src, conv = _CACHE[key]
    if conv is None:
        return {"decl": "rejected"}, src
    deps = {name: f"dep{int(name[1:])}" for name in conv.dependencies}
    try:
        args, kwargs = conv.convert_inputs(payload_json)
        res = run_coro(fn(*args, **kwargs, **deps))
    except Exception as e:  # noqa: BLE001
        return {"decl": "ok", "got": {"fail": True, "vals": [], "va": 0, "vk": 0}, "exc": type(e).__name__}, src
    vals = []
    va = vk = 0
    made_up = False
    for i, p in enumerate(sig):
        v = res[f"p{i + 1}"]
        if p["kind"] == "VA":
            vals.append("-")
            va = len(v)
        elif p["kind"] == "VK":
            vals.append("-")
            vk = len(v)
        elif v == f"v{i + 1}":
            vals.append("v")
        elif v == f"d{i + 1}":
            vals.append("d")
        elif v == f"dep{i + 1}":
            vals.append("dep")
        else:
            vals.append("made-up")
            made_up = True
    out = {"decl": "ok", "got": {"fail": False, "vals": vals, "va": va, "vk": vk}}
    if made_up:
        out["made_up"] = [repr(res[f"p{i + 1}"]) for i in range(len(sig))]
    return out, src


def run(tier: str, seed: int, replay=None) -> int:
    vloop.setup()
    from repid import BasicConverter, DefaultConverter
    from repid.converter import PydanticConverter
    ck = Check("C08", tier, seed)
    n = 3 if tier == "quick" else 4
    ck.rule = (f"all well-formed signatures with <= {n} parameters (kind x default x dependency) x all payloads (subsets of the named "
               "parameters x 0..2 extra keys, and the empty payload) x {BasicConverter, PydanticConverter, DefaultConverter}; "
               "non-trivial = payload misses a parameter, has extras, or is empty; TLC verifies each case against Bind and that the "
               "number of signatures equals the number of well-formed signatures of the specification")
    r = tlc.run_tlc("MC_Bind", f"MC_Bind_{tier}.cfg", timeout=1800)
    if not r.ok:
        ck.model_violation(r, "MC_Bind")
    ck.add_tlc(r, "MC_Bind: EachParam, ExtrasOnlyToCatchAll, MissingFails, EmptyRunsIfAllDefaults, DepsNeverFromPayload")
    m = re.search(r'<<"GOODSIGS", (\d+)>>', r.out)
    good_spec = int(m.group(1))
    sigs = list(all_sigs(n))
    decl = [s for s in sigs if declarable(s)]
    if len(decl) != good_spec:
        raise tlc.MachineryError(f"harness enumerates {len(decl)} declarable signatures, the specification {good_spec}")
    convs = {"basic": BasicConverter, "pydantic": PydanticConverter, "default": DefaultConverter}
    cases, info = [], []
    rng = random.Random(seed)
    for sig in sigs:
        named = [i + 1 for i, p in enumerate(sig) if p["kind"] in ("PO", "PK", "KO") and not p["dep"]]
        pays = [(set(c), x, False) for k in range(len(named) + 1) for c in itertools.combinations(named, k) for x in (0, 1, 2)]
        pays.append((set(), 0, True))
        if not declarable(sig):
            pays = [(set(), 0, True)]
        for pay, extras, empty in pays + pays[::-1]:     # the sequence forwards, then backwards
            payload = {f"p{i}": f"v{i}" for i in sorted(pay)}
            for x in range(extras):
                payload[f"x{x + 1}"] = f"e{x + 1}"
            pj = "" if empty else json.dumps(payload)
            for cname, ccls in convs.items():
                if cname == "default" and tier == "quick" and rng.random() > 0.15:
                    continue
                got, src = observe(sig, ccls, pj)
                conv_tag = "pydantic" if cname in ("pydantic", "default") else "basic"
                case = {"sig": sig, "pay": sorted(pay), "extras": extras, "empty": empty, "conv": conv_tag,
                        "decl": got["decl"], "got": got.get("got", {"fail": True, "vals": [], "va": 0, "vk": 0})}
                cases.append([case])
                info.append({"src": src.splitlines()[0], "payload": pj, "conv": cname, "observed": got})
                ck.case((json.dumps(sig), tuple(sorted(pay)), extras, empty, cname),
                        nontrivial=empty or extras > 0 or len(pay) < len(named))
    v = tlc.validate_traces("Trace_Bind", "Trace_Bind.cfg", cases, chunk=20000)
    ck.add_tlc(v.result, f"Trace_Bind: {len(cases)} observed bindings compared with Bind(sig, payload)")
    ck.traces += len(cases)
    ck.exhaustive = True
    ck.notes["signatures"] = len(sigs)
    ck.notes["declarable_signatures"] = len(decl)
    ck.sample(info[len(info) // 3])
    ck.sample(info[2 * len(info) // 3])
    kf = known_for("C08")
    shown = 0
    for i in sorted(v.rejected):
        what = f"{info[i]['conv']} converter, {info[i]['src']} payload {info[i]['payload']!r}: observed {info[i]['observed']}"
        hit = None
        for k in kf:
            if k["match"]["conv"] == info[i]["conv"] and eval(k["match"]["when"], {"case": cases[i][0], "info": info[i]}):  # noqa: S307
                hit = k
        if hit:
            ck.known(hit["id"])
            continue
        if shown < 15:
            ck.violation("binding differs from Bind(sig, payload): " + what, {"check": "c08", "case": cases[i][0], "info": info[i]})
            shown += 1
    # binding self-test
    okc = next(c for c in cases if c[0]["decl"] == "ok" and not c[0]["got"]["fail"] and c[0]["got"]["vals"])
    badc = json.loads(json.dumps(okc))
    badc[0]["got"]["vals"][0] = "d" if badc[0]["got"]["vals"][0] != "d" else "v"
    vb = tlc.validate_traces("Trace_Bind", "Trace_Bind.cfg", [badc])
    if len(vb.rejected) != 1:
        raise tlc.MachineryError("binding self-test failed")
    # ---- return values: encoded result decodes to the value returned ------------------------------
    outputs_roundtrip(ck, seed, tier)
    repeated_executions(ck)
    return ck.finish()


def same(a, b) -> bool:
    """equality of decoded JSON values, NaN equal to NaN"""
    if isinstance(a, float) and isinstance(b, float) and a != a and b != b:
        return True
    if isinstance(a, list) and isinstance(b, list):
        return len(a) == len(b) and all(same(x, y) for x, y in zip(a, b))
    if isinstance(a, dict) and isinstance(b, dict):
        return a.keys() == b.keys() and all(same(a[k], b[k]) for k in a)
    return type(a) is type(b) and a == b if isinstance(a, bool) or isinstance(b, bool) else a == b


def repeated_executions(ck: Check) -> None:
    """Bind is a function of (signature, payload) alone: the same payload executed again -- a retry, or a second message with
    equal arguments -- binds to the same values, whatever the earlier execution did to the objects it was given.  Driven
    through the processor (actor_run), with actors that change their list / dict arguments in place."""
    import asyncio

    from repid import BasicConverter, Connection, InMemoryMessageBroker, Router, RouterDefaults
    from repid._processor import _Processor
    from repid.converter import DefaultConverter, PydanticConverter
    from repid.data._parameters import Parameters

    async def go():
        out = []
        for conv in (BasicConverter, PydanticConverter, DefaultConverter):
            broker = InMemoryMessageBroker()
            conn = Connection(broker)
            await conn.connect()
            seen = []

            async def act(xs: list, d: dict, n: int = 0):
                seen.append((list(xs), dict(d), n))
                xs.clear()
                xs.append("leftover")
                d["extra"] = 1
                d.pop("k", None)
            r = Router(defaults=RouterDefaults(converter=conv))
            r.actor(name="act", queue="q")(act)
            proc = _Processor(conn)
            key = broker.ROUTING_KEY_CLASS(id_="m1", topic="act", queue="q")
            payloads = ['{"xs": ["a", "b"], "d": {"k": 1}}', '{"xs": ["a", "b"], "d": {"k": 1}}', '{"xs": [], "d": {}, "n": 2}',
                        '{"xs": ["a", "b"], "d": {"k": 1}}', '{"xs": [], "d": {}, "n": 2}']
            for pl in payloads:
                await proc.actor_run(r.actors["act"], key, Parameters(), pl, conn)
            want = [(json.loads(pl)["xs"], json.loads(pl)["d"], json.loads(pl).get("n", 0)) for pl in payloads]
            out.append((conv.__name__, seen, want))
        return out
    loop = asyncio.new_event_loop()
    try:
        res = loop.run_until_complete(go())
    finally:
        loop.close()
    for name, seen, want in res:
        ck.case("repeat" + name)
        if seen != want:
            ck.violation(f"{name}: the same payload executed again binds to different values: executions received {seen!r}, the payloads say {want!r}",
                         {"check": "c08", "part": "repeated_executions", "converter": name})
    ck.notes["repeated_executions"] = sum(len(s) for _, s, _ in res)


def outputs_roundtrip(ck: Check, seed: int, tier: str) -> None:
    from repid import BasicConverter
    from repid.converter import PydanticConverter
    rng = random.Random(seed)

    def gen(d=0):
        t = rng.randrange(7 if d < 3 else 5)
        if t == 0:
            return rng.randint(-10 ** 12, 10 ** 12)
        if t == 1:
            return rng.choice(["", "a", "ünï", "x" * 50, '"q"'])
        if t == 2:
            return rng.choice([True, False, None])
        if t == 3:
            return rng.random() * 10 ** rng.randint(-5, 10)
        if t == 4:
            # (the non-finite floats travel as Infinity / -Infinity / NaN, which the decoder reads back)
            return rng.choice([0, -1, 1.5, float("inf"), float("-inf"), float("nan"), 1e308, -0.0])
        if t == 5:
            return [gen(d + 1) for _ in range(rng.randint(0, 4))]
        return {f"k{j}": gen(d + 1) for j in range(rng.randint(0, 4))}

    async def plain(a: int = 0):
        return None
    n = {"quick": 1500, "thorough": 20000}[tier]
    bad = 0
    for _ in range(n):
        val = gen()
        for cls in (BasicConverter, PydanticConverter):
            try:
                enc = cls(plain).convert_outputs(val)
                back = json.loads(enc)
            except Exception as e:  # noqa: BLE001
                bad += 1
                ck.violation(f"{cls.__name__}.convert_outputs({val!r}) raises {type(e).__name__}: {e}", {"check": "c08", "value": repr(val)})
                break
            if not same(back, val):
                bad += 1
                ck.violation(f"{cls.__name__}.convert_outputs({val!r}) decodes to {back!r}", {"check": "c08", "value": repr(val)})
                break
        if bad:
            break
    ck.notes["output_roundtrips"] = n * 2
