"""C20: health endpoint.  Health.tla (TLC: OpenIffRunning, No200AfterFailure ...); the real
HealthCheckServer + _HttpServerProtocol driven inside a real Worker run on the virtual loop: the
listening socket is a recording fake (open/closed observable), connections are hand-fed with byte
strings of every request class (valid requests split at every byte offset), a consumer failure is
injected at a chosen instant; the recorded run is validated against Trace_Health."""
from __future__ import annotations

import asyncio
import copy
import random
import re

from checks.common import Check, pool
from harness import tlc


# texts of the injected consumer failure (whatever the exception says, the worker reports itself unhealthy)
FAIL_TEXT = ["broker connection lost (injected)", "lost {conn} after {0} retries {", "{'code': 320, 'text': 'CONNECTION_FORCED'}", "100% {} %s %(x)s"]


def gen_bytes(cls: str, ep: str, rng: random.Random) -> bytes:
    hdrs = "Host: localhost\r\nUser-Agent: probe/1.0\r\nAccept: */*\r\n"
    if cls == "get_ep":
        return f"GET {ep} HTTP/1.1\r\n{hdrs}\r\n".encode()
    if cls == "get_other":
        path = rng.choice(["/", ep + "x", ep + "/", "/" + ep.strip("/").upper() if ep.strip("/").upper() != ep.strip("/") else "/zz", ep[:-1] or "/q"])
        if path == ep:
            path = "/other"
        return f"GET {path} HTTP/1.1\r\n{hdrs}\r\n".encode()
    if cls == "other_method":
        return f"{rng.choice(['POST', 'HEAD', 'PUT', 'get', 'DELETE'])} {ep} HTTP/1.1\r\n{hdrs}\r\n".encode()
    if cls == "oversized":
        return (f"GET {ep} HTTP/1.1\r\n{hdrs}" + "X-Pad: " + "a" * rng.choice([9000, 70000]) + "\r\n\r\n").encode()
    if cls == "fragment":
        return rng.choice([f"GET {ep} HTTP/1.1\r\n{hdrs}".encode(), b"GET ", f"GET {ep}".encode(), b"G"])
    if cls == "binary":
        return bytes(rng.choice([[0xff, 0xfe, 0x00, 0x80], [0xc3, 0x28], list(rng.randbytes(40)) + [0xff]]))
    if cls == "empty":
        return rng.choice([b"\r\n\r\n", b"\n", b"\r\n\r\n\r\n"])
    if cls == "short_line":
        return rng.choice([b"GET\r\n\r\n", f"GET {ep}\r\n\r\n".encode(), b"HELLO\r\n\r\n"])
    raise ValueError(cls)


def parse_response(data: bytes):
    """(code, wellformed)"""
    if not data:
        return 0, True
    try:
        text = data.decode()
        head, _, body = text.partition("\r\n\r\n")
        lines = head.split("\r\n")
        m = re.fullmatch(r"HTTP/1\.1 (\d{3}) .*", lines[0])
        code = int(m.group(1))
        h = {ln.split(":", 1)[0].lower(): ln.split(":", 1)[1].strip() for ln in lines[1:]}
        ok = int(h["content-length"]) == len(body.encode()) and h.get("connection") == "close"
        return code, ok
    except Exception:  # noqa: BLE001
        return -2, False


async def scenario(loop, sc):
    from harness import vloop
    from harness.vloop import FakeTransport
    from repid import BasicConverter, Connection, HealthCheckServerSettings, InMemoryMessageBroker, Job, RouterDefaults, Worker
    rng = random.Random(sc["seed"])
    ep = sc["endpoint"]
    broker = InMemoryMessageBroker()
    conn = Connection(broker)
    await conn.connect()
    done = []
    grace = sc.get("grace_s", 0.2)
    w = Worker(graceful_shutdown_time=grace, run_health_check_server=True,
               health_check_server_settings=HealthCheckServerSettings(address=sc.get("address", "0.0.0.0"), port=sc.get("port", 8080), endpoint_name=ep),
               router_defaults=RouterDefaults(converter=BasicConverter), _connection=conn)

    async def ja(n: int):
        await asyncio.sleep(sc.get("ja_ms", 50) / 1000)
        done.append(n)

    async def jb(n: int):
        done.append(n)
    w.actor(ja, queue="qa")
    w.actor(jb, queue="qb")
    await w.declare_all_queues()
    njobs = sc.get("njobs", 6)
    for n in range(njobs):
        await Job("ja" if n % 2 else "jb", queue="qa" if n % 2 else "qb", args={"n": n}, _connection=conn).enqueue()
    # consumer failure injection: the consumer of queue qb starts raising at fail_at_ms
    fail_at = sc.get("fail_at_ms")
    orig_get = broker.get_consumer
    ev = []
    failed = {}          # "step": the loop step at which the consumer's consume() raised
    SETTLE = 8           # loop steps the runner gets to notice the failure (no time passes in them)

    def get_consumer(queue_name, *a, **k):
        c = orig_get(queue_name, *a, **k)
        if queue_name == "qb" and fail_at is not None:
            orig_consume = c.consume

            async def consume():
                if vloop.CLOCK.us >= fail_at * 1000:
                    failed.setdefault("step", loop.steps)
                    raise ConnectionError(FAIL_TEXT[fail_at % len(FAIL_TEXT)])
                try:
                    return await asyncio.wait_for(orig_consume(), max(0.001, (fail_at * 1000 - vloop.CLOCK.us) / 1e6))
                except asyncio.TimeoutError:
                    failed.setdefault("step", loop.steps)
                    raise ConnectionError(FAIL_TEXT[fail_at % len(FAIL_TEXT)]) from None
            c.consume = consume
            if sc.get("slow_pause_ms"):
                # pausing a consumer is a broker round trip on some brokers: it takes time (and the status must not wait for it)
                orig_pause = c.pause

                async def pause():
                    await asyncio.sleep(sc["slow_pause_ms"] / 1000)
                    await orig_pause()
                c.pause = pause
        return c
    broker.get_consumer = get_consumer
    import repid.worker, repid._runner
    runners = []

    class R(repid._runner._Runner):
        def __init__(self, *a, **k):
            super().__init__(*a, **k)
            runners.append(self)
    saved = repid.worker._Runner
    repid.worker._Runner = R

    def serving():
        s = getattr(loop, "fake_servers", [])
        return bool(s) and s[-1].is_serving()

    ev.append({"e": "probe", "serving": serving()})
    run_task = asyncio.ensure_future(w.run())
    try:
        # wait until the server is up
        for _ in range(200):
            if serving():
                break
            await asyncio.sleep(0)
        ev.append({"e": "run_start", "serving": serving()})
        srv = loop.fake_servers[-1]
        failed_logged = False
        cno = 0
        pending = []      # connections opened earlier, answered later (status must be evaluated at response time)
        for step in sc["steps"]:
            await asyncio.sleep(step.get("wait_ms", 1) / 1000)
            if fail_at is not None and not failed_logged and "step" in failed:
                # the failure is a fact of the run (consume() raised), not something read off the status it is supposed to set
                for _ in range(max(0, failed["step"] + SETTLE - loop.steps)):
                    await asyncio.sleep(0)
                ev.append({"e": "fail"})
                failed_logged = True
            if run_task.done():
                break
            kind = step["do"]
            if kind == "open":
                cno += 1
                p, t = srv.connect()
                ev.append({"e": "conn", "c": cno})
                pending.append((cno, p, t))
                continue
            if kind == "send":
                if step.get("reuse") and pending:
                    c, p, t = pending.pop(0)
                else:
                    cno += 1
                    c = cno
                    p, t = srv.connect()
                    ev.append({"e": "conn", "c": c})
                chunks = step["chunks"]
                cls = step["cls"]
                for chunk in chunks:
                    if t.closed:
                        break
                    try:
                        p.data_received(bytes(chunk))
                    except BaseException:      # asyncio: fatal error on the transport, connection dropped
                        t.close()
                code, well = parse_response(t.written)
                ev.append({"e": "recv", "c": c, "cls": cls, "code": code, "wellformed": well, "serving": serving()})
        if fail_at is not None and not failed_logged and "step" in failed:
            ev.append({"e": "fail"})
        await asyncio.sleep(sc.get("before_stop_ms", 300) / 1000)
        ev.append({"e": "probe", "serving": serving()})

        def ask_to_stop():
            # a signal, handled by the handler the worker registered itself (or, without one, the runner's own entry point)
            if not loop.deliver_signal():
                runners[0].sync_stop_wait_and_cancel(grace)
        if not run_task.done():
            ask_to_stop()
        raised = False
        try:
            # the port is open exactly while the worker runs: probes (listening state, and a request now and then) until run() ends
            for n in range(4000):
                if run_task.done():
                    break
                await asyncio.sleep(sc.get("probe_ms", 20) / 1000)
                if run_task.done():
                    break
                if not serving():
                    # closing the port is the last thing run() does: it has ended before any time passes (a probe that falls
                    # into those few loop steps has seen the end of the run, not a closed port of a running worker)
                    for _ in range(40):
                        if run_task.done():
                            break
                        await asyncio.sleep(0)
                    if run_task.done():
                        break
                ev.append({"e": "probe", "serving": serving()})
                if sc.get("requests_while_stopping") and n % 3 == 0 and serving():
                    cno += 1
                    p, t = srv.connect()
                    ev.append({"e": "conn", "c": cno})
                    try:
                        p.data_received(gen_bytes("get_ep", ep, rng))
                    except BaseException:
                        t.close()
                    code, well = parse_response(t.written)
                    ev.append({"e": "recv", "c": cno, "cls": "get_ep", "code": code, "wellformed": well, "serving": serving()})
            await asyncio.wait({run_task}, timeout=30)
            if not run_task.done():
                raise RuntimeError("c20: Worker.run() did not end within 30 s of the stop request")
            run_task.result()
        except RuntimeError:
            raise
        except Exception:  # noqa: BLE001   (TimeoutError included: the worker's own time-outs are its business)
            raised = True
        ev.append({"e": "run_end", "serving": serving(), "raised": raised})
        for _again in range(sc.get("more_runs", 0)):          # the same Worker object is run again
            runners.clear()
            run_task = asyncio.ensure_future(w.run())
            for _ in range(200):
                if serving() or run_task.done():
                    break
                await asyncio.sleep(0)
            await asyncio.sleep(0.05)
            ev.append({"e": "run_start", "serving": serving()})
            p, t = loop.fake_servers[-1].connect()
            cno += 1
            ev.append({"e": "conn", "c": cno})
            try:
                p.data_received(gen_bytes("get_ep", ep, rng))
            except BaseException:
                t.close()
            code, well = parse_response(t.written)
            ev.append({"e": "recv", "c": cno, "cls": "get_ep", "code": code, "wellformed": well, "serving": serving()})
            if not run_task.done() and runners:
                ask_to_stop()
            await asyncio.wait_for(run_task, 30)
            ev.append({"e": "run_end", "serving": serving(), "raised": False})
        expected = njobs if fail_at is None and not sc.get("jobs_may_be_cut") else None
        if expected is not None:
            ev.append({"e": "jobs", "done": len(done), "expected": expected})
    finally:
        repid.worker._Runner = saved
    return ev


def _run(sc):
    from harness import vloop
    vloop.setup()
    return vloop.run(scenario, sc)


def make_scenarios(tier, rng):
    scs = []
    classes = ["get_ep", "get_other", "other_method", "fragment", "binary", "empty", "short_line", "oversized"]
    for n in range({"quick": 40, "thorough": 400}[tier]):
        ep = rng.choice(["/healthz", "/health", "/health-check", "/h", "/a/b", "/health/", "/"])
        fail_at = rng.choice([None, None, 20, 120, 21, 122, 23])
        steps = []
        for k in range(rng.randint(3, 10)):
            r = rng.random()
            if r < 0.15:
                steps.append({"do": "open", "wait_ms": rng.choice([1, 10, 50])})
                continue
            cls = rng.choice(classes)
            data = gen_bytes(cls, ep, rng)
            chunks = [list(data)]
            if cls in ("get_ep",) and rng.random() < 0.4:
                cut = rng.randint(1, len(data) - 1)
                chunks = [list(data[:cut]), list(data[cut:])]
                cls = "get_ep_fragmented"
            steps.append({"do": "send", "cls": cls, "chunks": chunks, "wait_ms": rng.choice([1, 5, 30, 100]), "reuse": rng.random() < 0.5})
        scs.append({"seed": rng.randint(0, 10 ** 9), "endpoint": ep, "fail_at_ms": fail_at, "steps": steps,
                    "port": rng.choice([8080, 10101, 1]), "address": rng.choice(["0.0.0.0", "127.0.0.1"])})
    # every split point of a valid request
    ep = "/healthz"
    data = gen_bytes("get_ep", ep, rng)
    cuts = range(1, len(data)) if tier == "thorough" else rng.sample(range(1, len(data)), 25)
    steps = [{"do": "send", "cls": "get_ep_fragmented", "chunks": [list(data[:c]), list(data[c:])], "wait_ms": 1} for c in cuts]
    steps.append({"do": "send", "cls": "get_ep", "chunks": [list(data)], "wait_ms": 1})
    scs.append({"seed": 1, "endpoint": ep, "fail_at_ms": None, "steps": steps, "njobs": 8})
    for k in (1, 2):
        scs.append({"seed": 3, "endpoint": ep, "fail_at_ms": None, "more_runs": k,
                    "steps": [{"do": "send", "cls": "get_ep", "chunks": [list(data)], "wait_ms": 5}]})
    # status flips while connections are open
    for fail in (30, 60):
        steps = [{"do": "open", "wait_ms": 1}, {"do": "open", "wait_ms": 1},
                 {"do": "send", "cls": "get_ep", "chunks": [list(data)], "wait_ms": 5},
                 {"do": "send", "cls": "get_ep", "chunks": [list(data)], "wait_ms": 100, "reuse": True},
                 {"do": "send", "cls": "get_ep", "chunks": [list(data)], "wait_ms": 10, "reuse": True},
                 {"do": "send", "cls": "get_ep", "chunks": [list(data)], "wait_ms": 10}]
        scs.append({"seed": 2, "endpoint": ep, "fail_at_ms": fail, "steps": steps})
    # the stop arrives while jobs are running: probes and requests all through the graceful period, idle connections left open
    for grace_s, ja_ms in ((0.2, 50), (1.0, 600), (0.5, 2000), (0.0, 300)):
        for idle in (0, 2):
            steps = [{"do": "open", "wait_ms": 1} for _ in range(idle)] + [{"do": "send", "cls": "get_ep", "chunks": [list(data)], "wait_ms": 5}]
            scs.append({"seed": 5, "endpoint": ep, "fail_at_ms": None, "steps": steps, "grace_s": grace_s, "ja_ms": ja_ms, "njobs": 4,
                        "before_stop_ms": 20, "probe_ms": 25, "requests_while_stopping": True, "jobs_may_be_cut": True})
    # the failed consumer's pause() is slow (a broker round trip): probes every few milliseconds after the failure
    for fail in (20, 45):
        for slow in (80, 400):
            steps = [{"do": "send", "cls": "get_ep", "chunks": [list(data)], "wait_ms": 5} for _ in range(24)]
            scs.append({"seed": 4, "endpoint": ep, "fail_at_ms": fail, "steps": steps, "slow_pause_ms": slow})
    return scs


def run(tier: str, seed: int, replay=None) -> int:
    ck = Check("C20", tier, seed)
    rng = random.Random(seed)
    ck.rule = ("worker runs with the health server enabled; per scenario 3-10 hand-fed connections with byte strings from 8 request classes "
               "(valid GET endpoint / other path / other method / oversized valid / fragment / non-UTF-8 / blank / short request line), valid requests "
               "also split in two chunks (every split point in the thorough tier), connections opened before and answered after an injected "
               "consumer failure, endpoints/ports/addresses varied; non-trivial = contains a malformed class, a split request or a status flip")
    r = tlc.run_tlc("Health", "MC_Health.cfg", timeout=900)
    if not r.ok:
        ck.model_violation(r, "Health")
    ck.add_tlc(r, "Health: OpenIffRunning, Truth, No200AfterFailure")
    scs = [replay["scenario"]] if replay else make_scenarios(tier, rng)
    with pool() as ex:
        traces = list(ex.map(_run, scs, chunksize=2))
    v = tlc.validate_traces("Trace_Health", "Trace_Health.cfg", traces)
    ck.add_tlc(v.result, f"Trace_Health: {len(traces)} recorded runs")
    ck.traces += len(traces)
    for sc, t in zip(scs, traces):
        ck.case(str(sc["seed"]) + str(len(sc["steps"])) + sc["endpoint"] + str(sc["fail_at_ms"]),
                nontrivial=any(e.get("cls") in ("fragment", "binary", "empty", "short_line", "get_ep_fragmented") for e in t) or any(e["e"] == "fail" for e in t))
    ck.sample({"endpoint": scs[0]["endpoint"], "fail_at_ms": scs[0]["fail_at_ms"], "trace": traces[0]})
    for i in sorted(v.rejected)[:12]:
        pos = v.rejected[i]
        ck.violation(f"health endpoint run not a behaviour of Health at event {pos}: {traces[i][pos - 1] if pos <= len(traces[i]) else 'end'}",
                     {"check": "c20", "scenario": scs[i], "context": traces[i][max(0, pos - 6):pos]})
    if replay is None and v.accepted:
        t = next((traces[i] for i in v.accepted if any(e["e"] == "recv" and e["code"] == 200 for e in traces[i])), None)
        if t is None:
            raise tlc.MachineryError("self-test: no accepted run with a 200 response")
        bad = copy.deepcopy(t)
        next(e for e in bad if e["e"] == "recv" and e["code"] == 200)["code"] = 503
        vb = tlc.validate_traces("Trace_Health", "Trace_Health.cfg", [bad])
        if len(vb.rejected) != 1:
            raise tlc.MachineryError("binding self-test failed")
    return ck.finish()
