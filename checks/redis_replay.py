"""spec -> code for the Redis take path: the counter-example schedule TLC finds for OneHolder on the
implementation-shaped specification BrokerRedis (pinned behaviour) is replayed against the real
_RedisConsumer objects on the fake server by releasing their pending round trips in exactly that
order (Fetch = the LRANGE of the normal list, TakeTxn = the MULTI).  If both consumers then deliver
the message, the known finding `redis-double-take` is reproduced on the real code."""
from __future__ import annotations

import asyncio
import random
import re

from harness import tlc, vloop


class Directed:
    """releases pending round trips following a script of (client, kind); anything else (PING, the delayed zset,
    other priorities, HGETs) is released as soon as it is pending"""

    def __init__(self, script) -> None:
        self.script = list(script)
        self.pending = []
        self.done = []

    @staticmethod
    def kind(label: str):
        name, _, op = label.partition(":")
        if op == "lrange":
            return name, "fetch"
        if op.startswith("MULTI") and "lrem" in op:
            return name, "take"
        return name, "other"

    def release_one(self) -> bool:
        self.pending = [(f, lb) for (f, lb) in self.pending if not f.done()]
        if not self.pending:
            return False
        for k, (f, lb) in enumerate(self.pending):
            if self.kind(lb)[1] == "other":
                self.pending.pop(k)
                f.set_result(None)
                return True
        if self.script:
            want = self.script[0]
            for k, (f, lb) in enumerate(self.pending):
                if self.kind(lb) == want:
                    self.script.pop(0)
                    self.done.append(lb)
                    self.pending.pop(k)
                    f.set_result(None)
                    return True
            return False        # the step the schedule asks for is not pending yet: let time pass
        f, lb = self.pending.pop(0)
        f.set_result(None)
        return True


async def _scenario(loop, script):
    from repid import Connection
    from repid.data.priorities import PrioritiesT
    from harness.fakes import redis as fr
    random.seed(1)
    srv = fr.Server()
    sched = Directed(script)
    loop.idle_hook = sched.release_one
    brokers = []
    for n in (1, 2):
        b = fr.make_broker(srv, f"c{n}", sched)
        b._priorities = [1.0, 0.0, 0.0]          # always start with one priority order (no randomness in the replay)
        brokers.append(b)
    prod = fr.make_broker(srv, "prod", None)
    key = prod.ROUTING_KEY_CLASS(id_="m1", topic="job", queue="default", priority=PrioritiesT.HIGH.value)
    await prod.enqueue(key, "", prod.PARAMETERS_CLASS())
    cons = [b.get_consumer("default", ["job"]) for b in brokers]
    for c in cons:
        await c.start()
    got = []
    for c in cons:
        try:
            k, _, _ = await asyncio.wait_for(c.consume(), 3.0)
            got.append(k.id_)
        except asyncio.TimeoutError:
            got.append(None)
    for c in cons:
        await c.finish()
    return got, sched.done


def run_part(ck) -> None:
    r = tlc.run_tlc("BrokerRedis", "MC_BrokerRedis_pinned.cfg", timeout=600)
    ck.add_tlc(r, "BrokerRedis (pinned take path): OneHolder is violated -- the counter-example is the schedule replayed below")
    r2 = tlc.run_tlc("BrokerRedis", "MC_BrokerRedis_checked.cfg", timeout=600)
    if not r2.ok:
        raise tlc.MachineryError("BrokerRedis with compare-and-take should satisfy OneHolder")
    ck.add_tlc(r2, "BrokerRedis with a checked take (compare-and-take): OneHolder and NoDuplicateDelivery hold")
    if r.violated != "OneHolder":
        ck.notes["redis_double_take_model"] = "pinned model no longer violates OneHolder"
        return
    acts = [a for a, _ in r.trace]
    script = []
    for a in acts:
        m = re.match(r"(Fetch|TakeTxn)\((\d)\)", a)
        if m:
            script.append((f"c{m.group(2)}", "fetch" if m.group(1) == "Fetch" else "take"))
    vloop.setup()
    got, done = vloop.run(_scenario, script)
    ck.traces += 1
    ck.notes["redis_counterexample_replay"] = {"tlc_counterexample": acts, "released_round_trips": done, "delivered_to": got}
    if got == ["m1", "m1"]:
        ck.known("redis-double-take")
    else:
        ck.drift.append({"note": "the TLC counter-example of BrokerRedis (double take) did not reproduce on the real consumer: model and code disagree, or the defect was repaired", "delivered": got})
