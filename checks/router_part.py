"""C11, registration half: random sequences of actor registrations (incl. overrides moving an actor
to another queue) and include_router calls over several Router objects and a Worker; after every
operation the complete state of every router is compared by TLC with Router.tla."""
from __future__ import annotations

import copy
import random

from harness import tlc


def gen(rng, nops):
    ops = []
    for _ in range(nops):
        if rng.random() < 0.6:
            ops.append(("register", rng.randint(1, 3), rng.randint(1, 3), rng.randint(1, 3)))
        else:
            dst = rng.choice([1, 2, 3, 4, 4])
            src = rng.choice([r for r in (1, 2, 3) if r != dst])
            ops.append(("include", dst, src))
    return ops


def execute(ops):
    from repid import BasicConverter, Connection, InMemoryMessageBroker, Router, RouterDefaults, Worker
    conn = Connection(InMemoryMessageBroker())
    d = RouterDefaults(converter=BasicConverter)
    routers = {1: Router(defaults=d), 2: Router(defaults=d), 3: Router(defaults=d),
               4: Worker(router_defaults=d, handle_signals=[], _connection=conn)}
    fnids = {}

    def obs():
        out = []
        for r in (1, 2, 3, 4):
            R = routers[r]
            acts = [[int(n[1:]), int(a.queue[1:]), fnids[id(a.fn)]] for n, a in sorted(R.actors.items())]
            tbq = [[int(q[1:]), sorted(int(n[1:]) for n in names)] for q, names in sorted(R.topics_by_queue.items())]
            out.append({"actors": acts, "tbq": tbq})
        return out
    ev = []
    nfn = 0
    for op in ops:
        if op[0] == "register":
            _, r, n, q = op
            if r == 4:
                continue
            nfn += 1

            async def fn():
                return None
            fnids[id(fn)] = nfn
            routers[r].actor(name=f"n{n}", queue=f"q{q}")(fn)
            ev.append({"e": "register", "r": r, "n": n, "q": q, "fn": nfn, "obs": obs()})
        else:
            _, dst, src = op
            routers[dst].include_router(routers[src])
            ev.append({"e": "include", "dst": dst, "src": src, "obs": obs()})
    return ev


def run_part(ck, tier, rng) -> None:
    r = tlc.run_tlc("Router", "MC_Router.cfg", timeout=900)
    if not r.ok:
        ck.model_violation(r, "Router")
    ck.add_tlc(r, "Router: NoEmptyFilter, ActorReachable, TopicsAreActors over all registration/include sequences (3 routers, 2 names, 2 queues)")
    n = {"quick": 300, "thorough": 4000}[tier]
    seqs = [gen(rng, rng.randint(2, 9)) for _ in range(n)]
    # the shapes that matter, always present: two routers sharing a queue included into one worker, then re-used;
    # an override that moves the only actor of a queue elsewhere
    seqs.append([("register", 1, 1, 1), ("register", 2, 2, 1), ("include", 4, 1), ("include", 4, 2), ("include", 3, 1)])
    seqs.append([("register", 1, 1, 1), ("register", 1, 1, 2), ("include", 4, 1)])
    traces = [execute(s) for s in seqs]
    traces = [t for t in traces if t]
    v = tlc.validate_traces("Trace_Router", "Trace_Router.cfg", traces)
    ck.add_tlc(v.result, f"Trace_Router: {len(traces)} registration/include sequences on real Router/Worker objects")
    ck.traces += len(traces)
    ck.notes["router_sequences"] = len(traces)
    for s in seqs[:n]:
        ck.case("router" + str(s), nontrivial=any(o[0] == "include" for o in s) and len(s) > 2)
    ck.sample({"router_ops": seqs[-2], "last_observation": traces[-2][-1]["obs"]})
    for i in sorted(v.rejected)[:10]:
        pos = v.rejected[i]
        ck.violation(f"router state after {traces[i][pos - 1]['e']} differs from Router.tla: {traces[i][pos - 1]}",
                     {"check": "router", "ops": [e | {"obs": None} for e in traces[i][:pos]], "observed": traces[i][pos - 1]["obs"]})
    good = copy.deepcopy(next(traces[i] for i in v.accepted if len(traces[i]) > 1))
    victim = next(o for o in good[-1]["obs"] if o["tbq"])
    victim["tbq"] = []                       # a router's queue table vanishes
    vb = tlc.validate_traces("Trace_Router", "Trace_Router.cfg", [good])
    if len(vb.rejected) != 1:
        raise tlc.MachineryError("router binding self-test failed")
