"""C10, last sentence: the testing plug-in's run-on-enqueue mode (repid.testing.modifiers.RunWorkerOnEnqueueModifier, wired as
repid/testing/plugin.py wires it).  Programs of enqueues -- sequential, nested (an actor enqueues a job while it runs) and
concurrent (asyncio.gather) -- are run on the in-memory broker; the executions and the returns of the enqueue calls are logged
and validated against RunOnEnqueue.tla: enqueue returns after exactly that job was processed once."""
from __future__ import annotations

import asyncio
import itertools

from harness import tlc


async def _program(loop, prog):
    """prog: list of steps; a step is ("seq", n) | ("gather", n) | ("nest", depth)"""
    from repid import BasicConverter, Connection, InMemoryBucketBroker, InMemoryMessageBroker, Job, Repid, Router, RouterDefaults, Worker
    from repid.testing.modifiers import RunWorkerOnEnqueueModifier
    ev: list[dict] = []
    ids = itertools.count(1)
    router = Router(defaults=RouterDefaults(converter=BasicConverter))
    app = Repid(Connection(InMemoryMessageBroker(), InMemoryBucketBroker(), InMemoryBucketBroker(use_result_bucket=True)))

    async def enq(name, j, **args):
        await Job(name, args=dict(j=j, **args), _connection=app.connection).enqueue()
        ev.append({"e": "ret", "j": j})

    @router.actor
    async def leaf(j: int) -> None:
        await asyncio.sleep(0)
        ev.append({"e": "exec", "j": j})

    @router.actor
    async def parent(j: int, depth: int) -> None:
        ev.append({"e": "exec", "j": j})
        k = next(ids)
        if depth > 1:
            await enq("parent", k, depth=depth - 1)
        else:
            await enq("leaf", k)

    RunWorkerOnEnqueueModifier(app.connection.message_broker,
                               lambda: Worker(routers=[router], messages_limit=1, handle_signals=[], auto_declare=False, _connection=app.connection))
    async with app.magic(auto_disconnect=True):
        await app.connection.message_broker.queue_declare("default")
        for step in prog:
            kind, n = step
            if kind == "seq":
                for _ in range(n):
                    await enq("leaf", next(ids))
            elif kind == "gather":
                await asyncio.gather(*(enq("leaf", next(ids)) for _ in range(n)))
            else:
                await enq("parent", next(ids), depth=n)
    ev.append({"e": "end", "n": next(ids) - 1})
    return ev


def _run(prog):
    from harness import vloop
    vloop.setup()

    async def bounded(loop):
        sink: list = []
        try:
            return await asyncio.wait_for(_program(loop, prog), 120)
        except asyncio.TimeoutError:
            return [{"e": "stuck"}]
    return vloop.run(bounded)


def run_part(ck) -> None:
    from checks.common import pool
    progs = [[("seq", 1)], [("seq", 3)], [("gather", 2)], [("gather", 3)], [("nest", 1)], [("nest", 2)], [("nest", 3)],
             [("seq", 1), ("gather", 2), ("seq", 1)], [("nest", 1), ("gather", 2)], [("gather", 2), ("nest", 2)], [("seq", 2), ("nest", 1), ("seq", 1)]]
    with pool() as ex:
        traces = list(ex.map(_run, progs))
    v = tlc.validate_traces("RunOnEnqueue", "Trace_RunOnEnqueue.cfg", traces)
    ck.add_tlc(v.result, f"RunOnEnqueue: {len(traces)} programs of sequential / nested / concurrent enqueues under the testing plug-in's run-on-enqueue mode")
    ck.traces += len(traces)
    ck.notes["run_on_enqueue_programs"] = len(progs)
    for p, t in zip(progs, traces):
        ck.case("roe" + str(p), nontrivial=len(p) > 1 or p[0][0] != "seq")
    for k in sorted(v.rejected):
        pos = v.rejected[k]
        ck.violation(f"run-on-enqueue program {progs[k]}: enqueue did not return after exactly one execution of its job (event {pos}: {traces[k][pos - 1] if pos <= len(traces[k]) else 'end'})",
                     {"check": "worker", "scenario": None, "program": progs[k], "trace": traces[k]})
