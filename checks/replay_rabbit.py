"""spec -> code for the RabbitMQ broker: behaviours of the implementation-shaped specification BrokerRabbit, generated
by `tlc -simulate` (under the ordering constraint SimOrder: the server and the client library's callbacks run to
quiescence before the client's next call), are replayed call by call against the real RabbitMessageBroker /
_RabbitConsumer on the fake AMQP server.  At every quiescent point of the behaviour the concrete state -- the three AMQP
queues in order, the unacknowledged deliveries, the shared id -> tag map, each consumer's local queue and _delivered
entries -- must equal the specification's (delivery tags are compared up to renaming).  A divergence means the code (or
the fake server) no longer has the shape that was model-checked (drift); the replayed executions are also recorded and
validated against the broker contract like any other execution."""
from __future__ import annotations

import asyncio
import shutil
import subprocess
from datetime import timedelta

from harness import tlaparse, tlc, vloop

INTERNAL = {"expire", "deliver", "cb_sleep", "cb_expired", "cb_queue", "cb_reject"}


def simulate(num: int, depth: int, seed: int, cfg: str = "MC_BrokerRabbit_sim.cfg") -> list[list[dict]]:
    d = tlc.scratch("rsim")
    try:
        for f in tlc.SPEC.glob("*.tla"):
            shutil.copy(f, d / f.name)
        shutil.copy(tlc.SPEC / cfg, d / cfg)
        cmd = ["java", "-XX:+UseParallelGC", "-cp", tlc.JAR, "tlc2.TLC", "-simulate", f"file=tr,num={num}", "-depth", str(depth),
               "-workers", "1", "-seed", str(seed), "-metadir", str(d / "states"), "-config", cfg, "MC_BrokerRabbit.tla"]
        p = subprocess.run(cmd, cwd=d, capture_output=True, text=True, timeout=900)
        if "Error" in p.stdout and "violated" in p.stdout:
            raise tlc.MachineryError("BrokerRabbit simulation hit an invariant:\n" + p.stdout[-2000:])
        out = [tlaparse.parse_behaviour(f.read_text()) for f in sorted(d.glob("tr_*"))]
        if not out:
            raise tlc.MachineryError("no behaviours generated:\n" + p.stdout[-1500:])
        return out
    finally:
        shutil.rmtree(d, ignore_errors=True)


def _idn(s) -> int:
    return int(s[1:])


def _tick_of(us) -> int:
    """model instant of a wall-clock instant that sits 0.4 s before a tick boundary"""
    return int((us + 400_000) // 1_000_000) + 1


def concrete(srv, broker, consumers) -> dict:
    cno = {}
    for n, c in consumers.items():
        if c._consumer_tag is not None:
            cno[c._consumer_tag] = n
    qs = srv.queues
    live = {}
    un = set()
    for ch in srv.channels:
        if ch.closed:
            continue
        for tag, (cd, qname, m) in ch.unacked.items():
            src = "d" if qname.endswith(":delayed") else "x" if qname.endswith(":dead") else "n"
            un.add((cno.get(cd["tag"], -1), src, _idn(m.id)))
            live[tag] = _idn(m.id)
    tm = broker._id_to_delivery_tag
    return {
        "qn": [_idn(m.id) for m in qs["q1"]["msgs"]],
        "qd": [[_idn(m.id), _tick_of(m.expire_us)] for m in qs["q1:delayed"]["msgs"]],
        "qx": [_idn(m.id) for m in qs["q1:dead"]["msgs"]],
        "unacked": sorted(un),
        "tagged": sorted(_idn(i) for i, t in tm.items() if live.get(t) == _idn(i)),
        "stale_tags": sorted(_idn(i) for i, t in tm.items() if live.get(t) != _idn(i)),
        "local": {n: [_idn(k.id_) for (k, _, _) in c.queue._queue] for n, c in consumers.items()},
        "delivd": {n: sorted(_idn(i) for i, t in c._delivered.items() if tm.get(i) == t) for n, c in consumers.items()},
        "reg": {n: any(cd["tag"] == c._consumer_tag for cd in srv.consumers) for n, c in consumers.items()},
    }


def expected(st: dict) -> dict:
    un = sorted((dict(u)["c"], dict(u)["src"], dict(u)["id"]) for u in st["unacked"])
    tags = {dict(u)["tag"]: dict(u)["id"] for u in st["unacked"]}
    tm = st["tagmap"]
    n = len(st["cons"])
    return {
        "qn": st["qn"], "qd": [[b[0], b[1]] for b in st["qd"]], "qx": st["qx"], "unacked": un,
        "tagged": sorted(i + 1 for i, t in enumerate(tm) if t != 0 and tags.get(t) == i + 1),
        "stale_tags": sorted(i + 1 for i, t in enumerate(tm) if t != 0 and tags.get(t) != i + 1),
        "local": {c + 1: list(st["local"][c]) for c in range(n)},
        "delivd": {c + 1: sorted(i + 1 for i, t in enumerate(st["delivd"][c]) if t != 0 and tm[i] == t) for c in range(n)},
        "reg": {c + 1: st["cons"][c]["reg"] for c in range(n)},
    }


async def replay(loop, behaviour: list[dict]):
    from repid.data._parameters import DelayProperties, Parameters
    from repid.message import MessageCategory

    from harness.backends import backend
    from harness.record import Recorder
    be = backend("rabbit", loop)
    broker, conn = be["make"]()
    srv = be["server"]
    rec = Recorder(latency_us=None)
    rec.wrap_broker(broker)
    rec.projectors.append(be["projector"](broker))
    rec.signatures.append(be["signature"](broker))
    rec.install(loop)
    await conn.connect()
    await broker.queue_declare("q1")
    cfg = behaviour[0]["cons"]
    cat = {"n": MessageCategory.NORMAL, "d": MessageCategory.DELAYED, "x": MessageCategory.DEAD}
    consumers = {}
    for n, c in enumerate(cfg, start=1):
        topics = [f"t{t}" for t in sorted(c["topics"])] or None
        consumers[n] = broker.get_consumer("q1", topics, c["pf"] or None, cat[c["cat"]])
    held = {}
    RK = broker.ROUTING_KEY_CLASS

    def params(due, ttl):
        kw = {}
        # ticks are whole seconds: model instant k is wall second k - 1; a due time d sits 0.4 s BEFORE the boundary of
        # tick d (the server expires it at `due <= now`: its timer fires while the clock is advanced to the boundary), an
        # expiry half a second AFTER the boundary of tick now + ttl -- no expiry instant lies between a due time and its tick
        if due:
            kw["delay"] = DelayProperties(next_execution_time=vloop.wall((due - 1) * 1_000_000 - 400_000))
        if ttl:
            kw["ttl"] = timedelta(seconds=ttl + 0.5)
        return Parameters(timestamp=vloop.wall(), **kw)

    async def settle():
        for _ in range(12):
            await asyncio.sleep(0)
    steps = 0
    pending_requeue = None
    for n, st in enumerate(behaviour[1:], start=1):
        h = st["hist"]
        op = h[0]
        try:
            if op in INTERNAL:
                pass                       # the server's / the callbacks' own steps: they have happened, or happen while we settle
            elif op == "tick":
                await asyncio.sleep(max(0.0, (st["now"] - 1) - vloop.CLOCK.us / 1e6))
            elif op == "enqueue":
                _, i, t, due, ttl = h
                await broker.enqueue(RK(id_=f"m{i}", topic=f"t{t}", queue="q1"), f'{{"n":{i}}}', params(due, ttl))
            elif op == "start":
                await consumers[h[1]].start()
            elif op == "finish_flag":
                pass
            elif op == "finish_cancel":
                pass
            elif op == "finish_reject":
                await consumers[h[1]].finish()
                for i in [i for i, (c, *_) in held.items() if c == h[1] and st["heldc"][i - 1] == 0]:
                    held.pop(i)
            elif op == "consume":
                key, payload, p = await asyncio.wait_for(consumers[h[1]].consume(), 5.0)
                held[_idn(key.id_)] = (h[1], key, payload, p)
                if _idn(key.id_) != h[2]:
                    return {"diverged_at": n, "action": h, "why": f"consume returned {key.id_}, the specification hands out m{h[2]}"}, rec
            elif op in ("ack", "nack", "reject"):
                _, key, _, _ = held.pop(h[2])
                await getattr(broker, op)(key)
            elif op == "requeue_ack":
                pending_requeue = h
            elif op == "requeue_publish":
                _, c, i, due, ttl = pending_requeue
                _, key, payload, _ = held.pop(i)
                await broker.requeue(key, payload + " ", params(due, ttl))
            elif op == "requeue":
                _, c, i, due, ttl = h
                _, key, payload, _ = held.pop(i)
                await broker.requeue(key, payload + " ", params(due, ttl))
            else:
                raise tlc.MachineryError(f"replay_rabbit: unknown action {h}")
        except asyncio.TimeoutError:
            return {"diverged_at": n, "action": h, "why": "consume() blocked although the specification hands out a message"}, rec
        steps += 1
        # compare at the quiescent points of the behaviour: the next action is a client call (or the behaviour ends)
        nxt = behaviour[n + 1]["hist"][0] if n + 1 < len(behaviour) else None
        if nxt is None or op in ("finish_flag", "finish_cancel", "requeue_ack") or (nxt in INTERNAL) or nxt in ("finish_cancel", "finish_reject", "requeue_publish"):
            continue
        await settle()
        got, want = concrete(srv, broker, consumers), expected(st)
        if got != want:
            diff = {k: {"code": got[k], "spec": want[k]} for k in got if got[k] != want[k]}
            return {"diverged_at": n, "action": h, "why": "state differs", "diff": diff}, rec
    rec.obs()
    return {"diverged_at": None, "steps": steps}, rec


def _one(beh):
    vloop.setup()
    res, rec = vloop.run(replay, beh)
    return res, rec.trace(chk=["holder", "early", "content"])


def run_part(ck, tier: str, seed: int) -> None:
    from checks.common import pool
    num, depth = {"quick": (90, 45), "thorough": (2000, 70)}[tier]
    behs = simulate(num, depth, seed) + simulate(num // 2, depth, seed + 1, "MC_BrokerRabbit_sim2.cfg")
    with pool() as ex:
        outs = list(ex.map(_one, behs, chunksize=8))
    div = [(b, r) for b, (r, _) in zip(behs, outs) if r["diverged_at"] is not None]
    traces = [t for (_, t) in outs]
    v = tlc.validate_traces("Trace_BrokerAbs", "Trace_BrokerAbs.cfg", traces)
    ck.add_tlc(v.result, f"behaviour replay (RabbitMQ): {len(behs)} TLC-generated behaviours of BrokerRabbit driven through the real broker on the fake AMQP server, the executions validated against the contract")
    ck.traces += len(behs)
    ck.notes["rabbit_behaviours_replayed"] = len(behs)
    ck.notes["rabbit_replay_steps"] = sum(r.get("steps", r.get("diverged_at") or 0) or 0 for (r, _) in outs)
    ck.notes["rabbit_replay_divergences"] = len(div)
    for b, (r, _) in list(zip(behs, outs))[:300]:
        ck.case("rreplay" + str([s["hist"] for s in b]), nontrivial=any(s["hist"][0] == "consume" for s in b))
    ck.sample({"replayed_rabbit_behaviour": [s["hist"] for s in behs[0]][:16]})
    for b, r in div[:5]:
        ck.drift.append({"note": "replay of a BrokerRabbit behaviour diverges from the real broker: the code no longer has the shape that was model-checked",
                         "actions": [s["hist"] for s in b[1:r["diverged_at"] + 1]][-12:], **{k: r[k] for k in r if k != "diverged_at"}})
    for i in sorted(v.rejected)[:5]:
        ck.violation(f"replayed RabbitMQ behaviour rejected by the broker contract at event {v.rejected[i]}",
                     {"check": "replay_rabbit", "actions": [s["hist"] for s in behs[i][1:]]})


if __name__ == "__main__":
    import sys
    behs = simulate(int(sys.argv[1]) if len(sys.argv) > 1 else 20, 45, int(sys.argv[2]) if len(sys.argv) > 2 else 1,
                    sys.argv[3] if len(sys.argv) > 3 else "MC_BrokerRabbit_sim.cfg")
    nd = 0
    for b in behs:
        vloop.setup()
        res, rec = vloop.run(replay, b)
        if res["diverged_at"] is not None:
            nd += 1
            if nd <= 3:
                print([s["hist"] for s in b[1:res["diverged_at"] + 1]][-14:])
                print({k: v for k, v in res.items()})
    print(len(behs), "behaviours,", nd, "diverged")
