"""./verif setup: check the tools are there, the specs parse, repid imports from /repo."""
from __future__ import annotations

import subprocess
from pathlib import Path

from harness import tlc


def run() -> int:
    p = subprocess.run(["java", "-version"], capture_output=True, text=True)
    if p.returncode != 0:
        print("java missing")
        return 2
    import repid
    import os
    repo = os.environ.get("VERIF_REPO", "/repo").rstrip("/") + "/"
    if not repid.__file__.startswith(repo):
        print(f"repid is not imported from {repo}:", repid.__file__)
        return 2
    for f in sorted(Path(tlc.SPEC).glob("*.tla")):
        if f.name.startswith("Trace_"):
            continue
        tlc.sany(f.stem)
    (tlc.ROOT / "evidence").mkdir(exist_ok=True)
    print("setup ok")
    return 0
