"""code -> spec for the implementation-shaped specification Runner: recorded worker runs (real Worker.run() on the
in-memory broker) are projected onto the events of Trace_Runner and validated against Runner's actions; every
invariant of Runner (Conservation, SlotsSound, RunningBound, StartedBound, AtReturn, TriedBound) is evaluated in every
state of every trace.  A rejection means the runner no longer has the shape that was model-checked."""
from __future__ import annotations

from harness import tlc

MAX_IDS = 12


def modelled(sc: dict) -> bool:
    """the scenarios Runner speaks about: one worker, up to three queues, in-memory broker, plain outcomes, no recurrence / ttl"""
    if sc.get("kill") or sc.get("nworkers", 1) != 1:
        return False
    if len({a.get("queue", "default") for a in sc["actors"].values()}) > 3 or len(sc["jobs"]) > MAX_IDS:
        return False
    for j in sc["jobs"]:
        if j.get("defer_by_ms") or j.get("cron") or j.get("ttl_ms") or j.get("foreign"):
            return False
        if any(o not in ("ok", "raise", "timeout") for o in j.get("script", ["ok"])):
            return False
        if j.get("actor") not in sc["actors"]:
            return False
    return True


def project(trace: list[dict], sc: dict) -> list[dict] | None:
    """worker trace (Trace_Worker vocabulary) -> Trace_Runner events; None if the run is outside the model"""
    wcfg = next((e for e in trace if e["e"] == "wcfg"), None)
    if wcfg is None:
        return None
    wcons = {e["c"] for e in trace if e["e"] == "cons" and e.get("w")}
    cq = {e["c"]: e["q"] for e in trace if e["e"] == "cons" and e.get("w")}
    qmap: dict[int, int] = {}            # recorder's queue number -> 1..nq (the worker's queues, in order of their consumers)
    for c in sorted(cq):
        qmap.setdefault(cq[c], len(qmap) + 1)
    if not 1 <= len(qmap) <= 3:
        return None
    qof: dict[int, int] = {}
    calls: dict[int, dict] = {}
    maxr: dict[int, int] = {}
    out: list[dict] = []
    seen: set[int] = set()
    fin_moves: dict[int, list[int]] = {}
    last: dict[int, list] = {}
    last_prev: dict[int, list | None] = {}
    for e in trace:
        k = e["e"]
        if k == "begin":
            calls[e["k"]] = e
        elif k == "move":
            i, v = e["i"], e["v"]
            prev, last[i] = last.get(i), v
            last_prev[i] = prev
            if i > MAX_IDS:
                return None
            cl = calls.get(e.get("k", 0), {})
            op = cl.get("op")
            if i not in seen:
                if op != "enqueue" or v[3] or cl.get("m", {}).get("q") not in qmap:
                    return None
                qof[i] = qmap[cl["m"]["q"]]
                seen.add(i)
                out.append({"e": "arrive", "i": i})
            elif v[3] == 1 and e.get("c") in wcons and op in ("consume", "start", None):
                out.append({"e": "take", "i": i})
            elif op in ("ack", "nack", "requeue") and cl.get("i") == i:
                if op == "requeue" and not any(v):
                    continue              # (remove-then-add requeue of RabbitMQ: the message reappears with the second move)
                out.append({"e": "report", "i": i, "op": op})
            elif op == "reject" and cl.get("i") == i:
                out.append({"e": "giveback", "i": i})
            elif op == "finish":
                fin_moves.setdefault(e["k"], []).append(i)
            elif v[3] == 0 and sum(v) == 1 and op in ("consume", "start", None) and (last_prev.get(i) or [0, 0, 0, 0])[3] == 0:
                pass                      # promotion of a delayed retry: the model keeps it in q all along
            elif v[3] == 0 and sum(v) == 1 and not v[2] and op in ("consume", "start", None) and e.get("c") in wcons:
                out.append({"e": "cback", "i": i})      # the consumer itself gives back a message it had fetched
            else:
                return None               # something the model has no word for (dead-lettering by expiry, a foreign client, ...)
        elif k == "end":
            cl = calls.get(e["k"], {})
            if cl.get("op") == "consume" and e["st"] == "ok" and cl.get("c") in wcons:
                maxr[e["i"]] = int(e.get("p", {}).get("max", 0))
                out.append({"e": "got", "i": e["i"]})
            elif cl.get("op") == "finish" and cl.get("c") in wcons:
                out.append({"e": "fin", "q": qmap[cq[cl["c"]]], "ids": sorted(fin_moves.get(e["k"], []))})
        elif k == "xs":
            out.append({"e": "xs", "i": e["i"]})
        elif k == "xe":
            if e["out"] not in ("ok", "fail", "killed"):
                return None
            if e["out"] != "killed":
                out.append({"e": "xe", "i": e["i"], "out": e["out"]})
        elif k == "stop":
            out.append({"e": "stop"})
        elif k == "rend":
            out.append({"e": "ret"})
    n = max(seen) if seen else 0
    # retries per message: from the job that carries the id (ids are numbered in order of first appearance)
    be = sc.get("backend", "inmem")
    # in-memory: consume() takes from the broker itself; Redis / RabbitMQ: a background fetch fills a local queue; what
    # finish() returns: everything the consumer took and nobody settled (in-memory, RabbitMQ), or its local queue only (Redis)
    cfg = {"e": "cfg", "tl": int(wcfg["tl"]), "ml": int(wcfg["ml"]), "nq": len(qmap), "maxr": [maxr.get(i, 0) for i in range(1, n + 1)],
           "qof": [qof.get(i, 1) for i in range(1, n + 1)], "pf": 0 if be == "inmem" else max(1, min(int(wcfg["tl"]), 1000)),
           "fm": "local" if be == "redis" else "taken"}
    return [cfg] + out


def selftest(ck, proj, v) -> None:
    """binding: a recorded run with one event removed / one field changed must be rejected"""
    import copy
    good = [k for k in v.accepted if sum(1 for e in proj[k] if e["e"] == "report") >= 1][:4]
    bad, what = [], []
    for k in good:
        t = proj[k]
        g = next(n for n, e in enumerate(t) if e["e"] == "got")
        bad.append(t[:g] + t[g + 1:]); what.append("hand-over event removed")
        r = next(n for n, e in enumerate(t) if e["e"] == "report")
        t2 = copy.deepcopy(t)
        t2[r]["op"] = {"ack": "nack", "nack": "ack", "requeue": "ack"}[t2[r]["op"]]
        bad.append(t2); what.append("reported disposition changed")
        x = next(n for n, e in enumerate(t) if e["e"] == "xe")
        t3 = copy.deepcopy(t)
        t3[x]["out"] = "ok" if t3[x]["out"] == "fail" else "fail"
        bad.append(t3); what.append("outcome flipped")
        t4 = copy.deepcopy(t)
        t4[0]["tl"] = 0
        bad.append(t4); what.append("tasks limit 0")
    if not bad:
        return
    vb = tlc.validate_traces("Trace_Runner", "Trace_Runner.cfg", bad)
    if vb.accepted:
        raise tlc.MachineryError(f"Trace_Runner self-test: corrupted runs accepted: {[what[k] for k in vb.accepted]}")
    ck.notes["runner_selftest"] = f"{len(bad)} corrupted runs, all rejected"


def run_part(ck, scs: list[dict], traces: list[list[dict]]) -> None:
    idx, proj = [], []
    for n, (sc, t) in enumerate(zip(scs, traces)):
        if not modelled(sc):
            continue
        p = project(t, sc)
        if p is not None:
            idx.append(n)
            proj.append(p)
    ck.notes["runner_traces"] = len(proj)
    if not proj:
        return
    v = tlc.validate_traces("Trace_Runner", "Trace_Runner.cfg", proj, timeout=600)
    ck.add_tlc(v.result, f"Trace_Runner: {len(proj)} recorded in-memory worker runs validated against the implementation-shaped Runner specification (all its invariants in every state)")
    ck.traces += len(proj)
    ck.notes["runner_traces_rejected"] = len(v.rejected)
    selftest(ck, proj, v)
    if not v.rejected:
        return
    rej = sorted(v.rejected)
    # is the run a behaviour of Runner's actions that breaks one of this property's invariants (a violation), or not a
    # behaviour of Runner at all (the code no longer has the shape that was model-checked: drift, reported as a note)?
    own = {"C03": "ProgressC03", "C09": "ProgressC09", "C10": "ProgressC10"}.get(ck.pid)
    v0 = tlc.validate_traces("Trace_Runner", "Trace_Runner_ProgressOnly.cfg", [proj[k] for k in rej], timeout=600)
    behav = [rej[j] for j in v0.accepted]          # behaviours of Runner's actions that break some invariant
    drift = [rej[j] for j in v0.rejected]
    if own and behav:
        v1 = tlc.validate_traces("Trace_Runner", f"Trace_Runner_{own}.cfg", [proj[k] for k in behav], timeout=600)
        ck.add_tlc(v1.result, f"re-validation of rejected runs with only the invariants of {ck.pid}")
        mine = [behav[j] for j in v1.rejected]
        known_redis = set()
        if ck.pid == "C03" and mine:
            # the Redis consumer's finish() returns only its local queue (known finding redis-stop-leaves-in-flight): such a
            # run breaks AtReturn and nothing else
            v2 = tlc.validate_traces("Trace_Runner", "Trace_Runner_ProgressC03noAR.cfg", [proj[k] for k in mine], timeout=600)
            known_redis = {mine[j] for j in v2.accepted if scs[idx[mine[j]]].get("backend") == "redis"}
            from checks.common import known_for
            if known_redis and any(kf["id"] == "redis-stop-leaves-in-flight" for kf in known_for("C03")):
                for _ in known_redis:
                    ck.known("redis-stop-leaves-in-flight")
            else:
                known_redis = set()
        for k in [k for k in mine if k not in known_redis][:5]:
            pos = v.rejected[k]
            ck.violation(f"worker run follows Runner's actions but breaks its invariant for {ck.pid} at event {pos}: {proj[k][pos - 1] if pos <= len(proj[k]) else 'end'}",
                         {"check": "worker", "scenario": scs[idx[k]], "rejected_at": pos, "context": proj[k][max(0, pos - 10):pos]})
        ck.notes["runner_traces_other_invariants"] = len(behav) - len(mine)
    for k in drift[:8]:
        pos = v.rejected[k]
        ck.drift.append({"note": "recorded worker run is not a behaviour of Runner.tla: the runner no longer has the shape that was model-checked",
                         "scenario": scs[idx[k]], "rejected_at": pos, "event": proj[k][pos - 1] if pos <= len(proj[k]) else "end",
                         "context": proj[k][max(0, pos - 8):pos]})
